#!/usr/bin/env python3
"""Must-fail / must-stay-green self-test of the verification engine.

Every case is a textual edit of a file of /repo applied in an in-memory overlay (nothing
is written to /repo or /verif; no evidence file is touched). `fail` cases break the named
property and the check must exit 1 with a VIOLATION line naming one of the listed
obligations; `green` cases are semantics-preserving refactors and the check must exit 0.
Run on every change of the engine or of the contracts:  python3 selftest/run.py [-j N]
"""
import os, subprocess, sys, concurrent.futures as cf

VERIF = os.path.dirname(os.path.dirname(os.path.abspath(__file__)))
REPO = os.environ.get("IONVC_REPO", "/repo")

B = "ion/bits.go"
CASES = [
    # (kind, property, file, old, new, obligation-name substrings of which one must be reported)
    ("fail", "C04", B, "\tfor v > 0 {\n\t\tlength++\n\t\tv >>= 7", "\tfor v > 0 {\n\t\tlength++\n\t\tv >>= 8", ["varUintLen:post"]),
    ("fail", "C04", B, "\tif hb&0x80 != 0 {", "\tif hb&0x80 != 0 && n > 0 {", ["intLen:post"]),
    ("fail", "C04", B, "func tagLen(length uint64) uint64 {\n\tif length < 0x0E {", "func tagLen(length uint64) uint64 {\n\tif length <= 0x0E {", ["tagLen:post"]),
    ("fail", "C04", B, "\tif length < 0x0E {\n\t\t// Short form", "\tif length <= 0x0E {\n\t\t// Short form", ["appendTag:post"]),
    ("fail", "C04", B, "\tb = append(b, code|0x0E)", "\tb = append(b, code|0x0F)", ["appendTag:post:ensures3"]),
    ("fail", "C04", B, "\tbuf[i] = 0x80 | byte(v&0x7F)\n\tv >>= 7\n\n\tfor v > 0 {", "\tbuf[i] = 0x80 | byte(v&0x7F)\n\tv >>= 7\n\n\tfor v > 0x7F {", ["appendVarUint:post", "appendTag:post"]),
    ("fail", "C04", B, "\tbuf[i] = byte(v & 0xFF)\n\tv >>= 8\n\n\tfor v > 0 {", "\tbuf[i] = byte(v & 0xFF)\n\tv >>= 8\n\n\tfor v > 1 {", ["appendUint:post"]),
    ("fail", "C04", B, "\tlength := uint64(1)\n\tmag >>= 6", "\tlength := uint64(1)\n\tmag >>= 7", ["varIntLen:post"]),
    ("fail", "C04", B, "\tnext := mag >> 6\n\tif next == 0 {", "\tnext := mag >> 7\n\tif next == 0 {", ["appendVarInt:post"]),
    # the bytes of the long-form tag length (only the quantified, case-split clause sees this one)
    ("fail", "C04", B, "\treturn appendVarUint(b, length)", "\treturn appendVarUint(b, length+128)", ["appendTag:post:ensures4.k="]),
    # byte contents only (lengths stay right): seen only by the case-split byte-position clauses
    ("fail", "C04", B, "\t\tsignbit = 0x40\n", "\t\tsignbit = 0x20\n", ["appendVarInt:post:ensures2.k="]),
    ("fail", "C04", B, "\t\ti--\n\t\tbuf[i] = byte(v & 0xFF)", "\t\ti--\n\t\tbuf[i] = byte(v & 0x7F)", ["appendUint:post:ensures2.k="]),
    ("fail", "C04", B, "\t\tif neg {\n\t\t\tbits[0] ^= 0x80", "\t\tif neg {\n\t\t\tbits[0] ^= 0x40", ["appendInt:post:ensures2.k="]),
    # a write before the old contents (frame clause) and an out-of-range index (safety)
    ("fail", "C04", B, "\t// Long form, with separate length.\n\tb = append(b, code|0x0E)", "\t// Long form, with separate length.\n\tif len(b) > 0 {\n\t\tb[0] = 0\n\t}\n\tb = append(b, code|0x0E)", ["appendTag:post:ensures5", "appendTag:frame"]),
    ("fail", "C04", B, "\tvar buf [10]byte\n\n\ti := 9\n\tbuf[i] = 0x80 | byte(v&0x7F)", "\tvar buf [9]byte\n\n\ti := 8\n\tbuf[i] = 0x80 | byte(v&0x7F)", ["appendVarUint:safe", "appendVarUint:unwind", "appendVarUint:post"]),
    ("green", "C04", B, "\tfor v > 0 {\n\t\tlength++\n\t\tv >>= 8", "\tfor v != 0 {\n\t\tlength++\n\t\tv >>= 8", []),
    ("green", "C04", B, "\ti := 9\n\tbuf[i] = 0x80 | byte(v&0x7F)\n\tv >>= 7\n\n\tfor v > 0 {\n\t\ti--\n\t\tbuf[i] = byte(v & 0x7F)\n\t\tv >>= 7\n\t}\n\n\treturn append(b, buf[i:]...)",
     "\tidx := 9\n\tbuf[idx] = 0x80 | byte(v&0x7F)\n\tv >>= 7\n\n\tfor v > 0 {\n\t\tidx--\n\t\tbuf[idx] = byte(v & 0x7F)\n\t\tv >>= 7\n\t}\n\n\treturn append(b, buf[idx:]...)", []),
    ("green", "C04", B, "\tmag := uint64(n)\n\tif n < 0 {\n\t\tmag = uint64(-n)\n\t}\n\n\tlength := uintLen(mag)", "\tvar mag uint64\n\tif n < 0 {\n\t\tmag = uint64(-n)\n\t} else {\n\t\tmag = uint64(n)\n\t}\n\n\tlength := uintLen(mag)", []),
    # extract the magnitude computation of intLen into a new, uncontracted helper
    ("green", "C04", B, "func intLen(n int64) uint64 {\n\tif n == 0 {\n\t\treturn 0\n\t}\n\n\tmag := uint64(n)\n\tif n < 0 {\n\t\tmag = uint64(-n)\n\t}\n",
     "func magOf(n int64) uint64 {\n\tif n < 0 {\n\t\treturn uint64(-n)\n\t}\n\treturn uint64(n)\n}\n\nfunc intLen(n int64) uint64 {\n\tif n == 0 {\n\t\treturn 0\n\t}\n\n\tmag := magOf(n)\n", []),
    ("green", "C04", B, "\tif length < 0x0E {\n\t\treturn 1\n\t}\n\treturn 1 + varUintLen(length)", "\tif length >= 0x0E {\n\t\treturn varUintLen(length) + 1\n\t}\n\treturn 1", []),
]


def run(case):
    kind, prop, file, old, new, want = case
    cmd = [os.path.join(VERIF, "bin/ionvc"), "check", "-prop", prop, "-tier", "quick", "-repo", REPO, "-verif", VERIF,
           "-mutate", file + "§" + old + "§" + new]
    env = dict(os.environ, GOFLAGS="-mod=mod", GOPROXY="off", GOSUMDB="off", GOTOOLCHAIN="local", GOWORK="off")
    env.pop("VERIF_TIER", None)
    p = subprocess.run(cmd, capture_output=True, text=True, env=env, cwd=VERIF)
    viol = [l for l in p.stdout.splitlines() if l.startswith("VIOLATION")]
    if kind == "green":
        ok = p.returncode == 0 and not viol
    else:
        ok = p.returncode == 1 and any(any(w.replace(":", "_") in v for w in want) for v in viol)
    return ok, case, p.returncode, viol, p.stderr[-400:]


def main():
    j = 2
    if "-j" in sys.argv:
        j = int(sys.argv[sys.argv.index("-j") + 1])
    bad = 0
    with cf.ThreadPoolExecutor(j) as ex:
        for ok, case, rc, viol, err in ex.map(run, CASES):
            label = case[4].strip().splitlines()[0][:60]
            conf = sum(1 for v in viol if "no-failing-input-found" not in v)
            print("%s %-5s %s %-62s exit=%d violations=%d replay-confirmed=%d" % ("ok  " if ok else "BAD ", case[0], case[1], label, rc, len(viol), conf))
            if not ok:
                bad += 1
                for v in viol[:6]:
                    print("      " + v)
                if err:
                    print("      " + err.replace("\n", "\n      "))
    print("selftest: %d cases, %d bad" % (len(CASES), bad))
    sys.exit(1 if bad else 0)


if __name__ == "__main__":
    main()
