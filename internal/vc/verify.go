package vc

import (
	"fmt"
	"go/token"
	"go/types"
	"sort"
	"strings"

	"golang.org/x/tools/go/ssa"
)

// TargetResult is everything generated for one function under contract.
type TargetResult struct {
	Contract    *Contract
	Name        string
	Script      string
	Obls        []*Obligation
	Notes       []string
	Unsupported string // non-empty: the function is outside the engine's subset
	Inputs      []InputVar
	Size        int
	slicer      *Slicer
}

// KeyFor returns a digest identifying the sliced query of the obligation condition.
func (tr *TargetResult) KeyFor(cond string) string {
	if tr.slicer == nil {
		return hashOf(tr.Script, cond)
	}
	return tr.slicer.Key(cond)
}

// ScriptFor returns the preamble restricted to what the obligation condition can depend on.
func (tr *TargetResult) ScriptFor(cond string) string {
	if tr.slicer == nil {
		return tr.Script
	}
	return tr.slicer.Script(cond)
}

func newExec(w *World, target string) *Exec {
	x := &Exec{g: NewGen(), w: w, compCache: map[types.Type][]comp{}, tags: map[string]uint32{}, tagTypes: map[uint32]types.Type{},
		oblCount: map[string]int{}, notes: map[string]bool{}, target: target, globalsInit: map[string]string{}, budget: 6000000,
		strIDs: map[string]string{}, sentinels: map[string]uint32{}, cells: map[string]*cellMeta{}, nonNil: map[string]bool{}}
	return x
}

func (x *Exec) newFrame(fn *ssa.Function, ctr *Contract, args []Val, spec bool) *frame {
	f := &frame{x: x, fn: fn, ctr: ctr, args: args, spec: spec, paramVals: map[*ssa.Parameter]Val{}, freeVals: map[*ssa.FreeVar]Val{}}
	for i, p := range fn.Params {
		f.paramVals[p] = args[i]
	}
	return f
}

// usesGlobals reports whether fn (or a function it statically calls, to depth 4)
// reads a package-level variable of the repository.
func usesGlobals(fn *ssa.Function, depth int, seen map[*ssa.Function]bool) bool {
	if fn == nil || seen[fn] || depth > 5 {
		return false
	}
	seen[fn] = true
	for _, b := range fn.Blocks {
		for _, ins := range b.Instrs {
			for _, op := range ins.Operands(nil) {
				if g, ok := (*op).(*ssa.Global); ok && g.Pkg != nil && strings.HasPrefix(g.Pkg.Pkg.Path(), repoPrefix) {
					return true
				}
			}
			if c, ok := ins.(ssa.CallInstruction); ok {
				if callee := c.Common().StaticCallee(); callee != nil && inRepo(callee) {
					if usesGlobals(callee, depth+1, seen) {
						return true
					}
				}
			}
		}
	}
	for _, a := range fn.AnonFuncs {
		if usesGlobals(a, depth+1, seen) {
			return true
		}
	}
	return false
}

// runInit executes the package initialiser symbolically (tolerantly: anything outside
// the subset is havocked) so that package-level tables have their initial contents.
// The assumption that nothing writes them afterwards is frame obligation W1 (C18).
func (x *Exec) runInit(pkg *ssa.Package, heap *Heap) *Heap {
	init := pkg.Func("init")
	if init == nil {
		return heap
	}
	x.tolerant = true
	x.noInline = true
	x.specDepth++
	f := x.newFrame(init, nil, nil, true)
	// the initialiser has not run yet
	heap = heap.clone()
	gk := "global:" + pkg.Pkg.Name() + ".init$guard"
	x.hset(heap, gk, SortBool, "", "(store "+x.hget(heap, gk, SortBool, "")+" "+refLit(1)+" false)", refLit(1))
	func() {
		defer func() {
			if r := recover(); r != nil {
				if u, ok := r.(unsupported); ok {
					x.note("package initialiser only partly modelled: %s", u.msg)
					return
				}
				panic(r)
			}
		}()
		f.run("true", heap)
	}()
	x.specDepth--
	x.tolerant = false
	x.noInline = false
	if len(f.rets) == 0 {
		return heap
	}
	var conds []string
	var hs []*Heap
	for _, r := range f.rets {
		conds = append(conds, r.reach)
		hs = append(hs, r.heap)
	}
	out := x.mergeHeaps(conds, hs)
	out.ep = nil
	x.note("package-level tables take the values the package initialiser gives them (no later writes: C18 frame W1)")
	return out
}

// Verify generates the verification conditions of one contract block.
func (w *World) Verify(c *Contract) (res *TargetResult) {
	res = &TargetResult{Contract: c, Name: c.Pkg + ":" + c.FuncID}
	x := newExec(w, c.FuncID)
	if c.Pkg != "ion" {
		x.target = c.Pkg + ":" + c.FuncID
	}
	defer func() {
		if r := recover(); r != nil {
			if u, ok := r.(unsupported); ok {
				res.Unsupported = u.msg
				res.Obls = nil
				return
			}
			panic(r)
		}
	}()
	pkg := w.Pkgs[c.Pkg]
	allProps := contractProps(c)

	if c.Lemma {
		x.revealAll = true
		cl := c.Ensures[0]
		fn := w.ClauseFn[cl.GoFunc]
		if fn == nil {
			unsup("lemma function missing")
		}
		var args []Val
		for _, p := range fn.Params {
			v := x.havoc(p.Type(), "in."+p.Name())
			args = append(args, v)
			x.inputs = append(x.inputs, InputVar{p.Name(), v})
		}
		heap := &Heap{m: map[string]hent{}}
		if usesGlobals(fn, 0, map[*ssa.Function]bool{}) {
			heap = x.runInit(w.Pkgs["ion"], heap)
		}
		f := x.newFrame(fn, nil, args, true)
		x.specDepth++
		x.oldHeaps = append(x.oldHeaps, heap)
		f.run("true", heap)
		x.specDepth--
		if len(f.rets) == 0 {
			unsup("lemma does not return")
		}
		t := f.rets[len(f.rets)-1].val.C[0]
		for i := len(f.rets) - 2; i >= 0; i-- {
			t = ite(f.rets[i].reach, f.rets[i].val.C[0], t)
		}
		x.oblige("lemma", strings.TrimPrefix(c.FuncID, "lemma "), cl.Props, not(t), nil, token.NoPos)
		x.finish(res)
		return res
	}
	if c.Iface || c.Trusted {
		return res
	}
	fn := w.FindFunc(pkg, c.FuncID)
	if fn == nil {
		unsup("function not found")
	}
	x.safeOn = c.SafeSet
	x.safeProps = c.Safe
	if c.AllocBound > 0 {
		x.allocBound = func(f *frame, n *node, in *ssa.MakeSlice, ln string) {
			x.oblige("alloc", "make<="+fmt.Sprint(c.AllocBound), c.AllocProps, and(n.reach, "(bvugt "+ln+" "+bvLit(c.AllocBound, 64)+")"), f.fn, in.Pos())
		}
	}
	x.ctr = c
	heap := &Heap{m: map[string]hent{}}
	if usesGlobals(fn, 0, map[*ssa.Function]bool{}) {
		heap = x.runInit(w.Pkgs["ion"], heap)
	}
	var args []Val
	for i, p := range fn.Params {
		v := x.havoc(p.Type(), "in."+p.Name())
		args = append(args, v)
		x.inputs = append(x.inputs, InputVar{p.Name(), v})
		if i == 0 && fn.Signature.Recv() != nil && isPtr(p.Type()) {
			x.g.Assume(not(eq(v.C[0], NilRef)))
			x.nonNil[not(eq(v.C[0], NilRef))] = true
			x.note("method receivers are assumed non-nil")
		}
	}
	for _, id := range c.Counts {
		x.setCounter(heap, id, bvLit(0, 64)) // ghost call counters start at zero
		x.setCounter(heap, failedID(id), bvLit(0, 64))
	}
	entry := heap.clone()
	for _, r := range c.Requires {
		t := x.evalClause(nil, r, heap, entry, args, nil, nil)
		x.g.Assume(t)
	}
	for _, r := range c.Assumed {
		t := x.evalClause(nil, r, heap, entry, args, nil, nil)
		x.g.Assume(t)
		x.note("trusted assumption of %s: %s", c.FuncID, r.Text)
	}
	f := x.newFrame(fn, c, args, false)
	f.keepCtx = c.SplitReturns
	x.pathMode = c.SplitReturns
	x.stack = append(x.stack, fn)
	f.run("true", heap)
	x.finalizeEpochs()

	if len(f.rets) == 0 {
		x.oblige("cover", "returns", allProps, "true", fn, fn.Pos())
		x.lastObl.Cover = true
		x.lastObl.Cond = "false"
		x.finish(res)
		return res
	}
	var conds []string
	var hs []*Heap
	for _, r := range f.rets {
		conds = append(conds, r.reach)
		hs = append(hs, r.heap)
	}
	final := x.mergeHeaps(conds, hs)
	rv := f.rets[len(f.rets)-1].val
	for i := len(f.rets) - 2; i >= 0; i-- {
		if !sameVal(f.rets[i].val, rv) {
			rv = x.iteVal(f.rets[i].reach, f.rets[i].val, rv)
		}
	}
	retReach := x.g.Fresh(SortBool, or(conds...))
	var results []Val
	if len(rv.Sub) > 0 {
		results = rv.Sub
	} else if fn.Signature.Results().Len() == 1 {
		results = []Val{rv}
	}
	// casesPost proves `forall k :: body` for an arbitrary constant k by the exhaustive case
	// split k == lo, ..., k == hi-1, k outside [lo,hi). Every case is an obligation; together
	// they are equivalent to the unsplit one.
	casesPost := func(e *Clause, reach string, heap *Heap, res []Val, suffix string, pos token.Pos) {
		sk := &skolem{}
		x.skolemNext = sk
		t := x.evalClauseAt(reach, f, e, heap, entry, args, res, nil)
		x.skolemNext = nil
		w, ok := bvWidth(sk.sort)
		if sk.name == "" || !ok {
			unsup("cases %s: the clause is not a top-level forall over an integer variable", e.CaseVar)
		}
		x.inputs = append(x.inputs, InputVar{"forall " + e.CaseVar, sk.v})
		var outside []string
		for k := e.CaseLo; k < e.CaseHi; k++ {
			is := eq(sk.name, bvLit(uint64(k), w))
			outside = append(outside, not(is))
			x.oblige("post", fmt.Sprintf("ensures%d%s.%s=%d", e.N, suffix, e.CaseVar, k), e.Props, and(reach, is, not(t)), fn, pos)
			x.lastObl.Detail, x.lastObl.Clause = e.Text, e
			x.lastObl.Group = fmt.Sprintf("ensures%d", e.N)
		}
		x.oblige("post", fmt.Sprintf("ensures%d%s.%s=other", e.N, suffix, e.CaseVar), e.Props, and(append([]string{reach}, append(outside, not(t))...)...), fn, pos)
		x.lastObl.Detail, x.lastObl.Clause = e.Text, e
		x.lastObl.Group = fmt.Sprintf("ensures%d", e.N)
	}
	for _, e := range c.Ensures {
		if QuickTier && clauseThoroughOnly(e) {
			// a clause tagged `thorough` is proved by the thorough tier only (a goal that needs
			// tens of seconds on an idle machine is not part of the check run on every change)
			x.note("clause left to the thorough tier: %s ensures%d", c.FuncID, e.N)
			continue
		}
		if c.SplitReturns && len(f.rets) > 1 {
			// proof hint `split returns`: the postcondition is proved once per return statement
			// (unfolded), each with that return's own values and heap. The return conditions
			// partition the merged one, so the conjunction of the cases is the unsplit obligation.
			for i, r := range f.rets {
				var res []Val
				if len(r.val.Sub) > 0 {
					res = r.val.Sub
				} else if fn.Signature.Results().Len() == 1 {
					res = []Val{r.val}
				}
				if e.CaseVar != "" {
					casesPost(e, r.reach, r.heap, res, fmt.Sprintf(".ret%d", i), r.pos)
					continue
				}
				x.goalReach = r.reach
				t, facts := x.evalClauseGoal(f, e, r.heap, entry, args, res, nil)
				x.oblige("post", fmt.Sprintf("ensures%d.ret%d", e.N, i), e.Props, and(r.reach, facts, not(t)), fn, r.pos)
				o := x.lastObl
				o.Detail, o.Clause, o.Group = e.Text, e, fmt.Sprintf("ensures%d", e.N)
			}
			continue
		}
		if e.CaseVar != "" {
			casesPost(e, retReach, final, results, "", token.NoPos)
			continue
		}
		t := x.evalClauseAt(retReach, f, e, final, entry, args, results, nil)
		x.oblige("post", fmt.Sprintf("ensures%d", e.N), e.Props, and(retReach, not(t)), fn, token.NoPos)
		x.lastObl.Detail, x.lastObl.Clause = e.Text, e
		x.lastObl.Group = fmt.Sprintf("ensures%d", e.N)
	}
	if c.ModAll {
		// `modifies *`: the contract makes no frame claim (callers havoc everything)
	} else if c.SplitReturns && len(f.rets) > 1 {
		// the frame condition is proved per return statement, each against its own heap
		for i, r := range f.rets {
			x.frameSuffix = fmt.Sprintf(".ret%d", i)
			x.frameObligations(f, c, entry, r.heap, args, r.reach, allProps)
		}
		x.frameSuffix = ""
	} else {
		x.frameObligations(f, c, entry, final, args, retReach, allProps)
	}
	// vacuity: the preconditions admit an execution that returns
	x.oblige("cover", "returns", allProps, retReach, fn, fn.Pos())
	x.lastObl.Cover = true
	// vacuity: every `atcall` clause speaks about a call that exists (`atcall-if-any`
	// clauses guard calls that need not exist)
	for _, cl := range c.AtCalls {
		if !cl.Optional && x.atCallSeen[cl] == 0 {
			x.oblige("atcall-site", fmt.Sprintf("%s.%d", cl.Callee, cl.N), cl.Props, "true", fn, fn.Pos())
			x.lastObl.Detail = "no call of " + cl.Callee + " is checked by this clause: " + cl.Text
		}
	}
	x.finalizeEpochs()
	x.finish(res)
	return res
}

// bvWidth parses "(_ BitVec N)".
func bvWidth(sort string) (int, bool) {
	var w int
	if _, err := fmt.Sscanf(sort, "(_ BitVec %d)", &w); err != nil || w <= 0 || w > 64 {
		return 0, false
	}
	return w, true
}

func contractProps(c *Contract) []string {
	seen := map[string]bool{}
	for _, cl := range c.AllClauses() {
		for _, p := range cl.Props {
			seen[p] = true
		}
	}
	for _, p := range c.Safe {
		seen[p] = true
	}
	for _, p := range c.AllocProps {
		seen[p] = true
	}
	var out []string
	for p := range seen {
		out = append(out, p)
	}
	sort.Strings(out)
	return out
}

func (x *Exec) finish(res *TargetResult) {
	res.Script = x.g.Script()
	res.slicer = x.g.NewSlicer()
	res.Obls = x.obls
	res.Inputs = x.inputs
	res.Size = x.g.Size
	for n := range x.notes {
		res.Notes = append(res.Notes, n)
	}
	sort.Strings(res.Notes)
}

// frameObligations: everything that existed on entry and is not listed in `modifies`
// has the same contents on return.
func (x *Exec) frameObligations(f *frame, c *Contract, entry, final *Heap, args []Val, retReach string, props []string) {
	var locs []modLoc
	if len(c.Modifies) > 0 {
		locs = x.evalModifies(f, c, entry, args)
	}
	type ml struct {
		ref, idx string
		all      bool
	}
	allowed := map[string][]ml{}
	for _, l := range locs {
		p := l.ptr
		if l.isMap {
			m := p.T.Underlying().(*types.Map)
			base := mapHeapKey(p.T)
			allowed[base+".dom"] = append(allowed[base+".dom"], ml{p.C[0], "", true})
			for _, cm := range x.comps(m.Elem()) {
				allowed[base+".val"+cm.suffix] = append(allowed[base+".val"+cm.suffix], ml{p.C[0], "", true})
			}
			continue
		}
		key := x.ptrKey(p)
		pt := p.T.Underlying().(*types.Pointer).Elem()
		if name, ok := isOpaque(pt); ok && name == "math/big.Int" {
			// `modifies *z` for a *big.Int covers the integer it holds
			allowed[bigIntKey] = append(allowed[bigIntKey], ml{p.C[0], "", false})
		}
		for _, cm := range x.comps(pt) {
			if p.Idx != "" {
				allowed[key+cm.suffix+"[]"] = append(allowed[key+cm.suffix+"[]"], ml{p.C[0], p.Idx, l.elems})
			} else {
				allowed[key+cm.suffix] = append(allowed[key+cm.suffix], ml{p.C[0], "", false})
			}
		}
	}
	var keys []string
	for k := range final.m {
		keys = append(keys, k)
	}
	sort.Strings(keys)
	for _, k := range keys {
		fe := final.m[k]
		if strings.HasPrefix(k, "box:") || strings.HasPrefix(k, "ghost:") {
			continue
		}
		if k == reflectVersionKey && c.ModReflect {
			continue
		}
		et := x.hget(entry, k, fe.sort, fe.idx)
		if et == fe.term {
			continue
		}
		// syntactic fast path: the final array is the entry array with stores only at
		// objects the function allocated itself or at objects its modifies clause lists
		if fe.base == et {
			okAll := true
			for _, r := range fe.refs {
				if isAllocRef(r) || isNil(r) {
					continue
				}
				found := false
				for _, a := range allowed[k] {
					if a.ref == r && (fe.idx == "" || a.all || a.idx == "") {
						found = true
					}
				}
				if !found {
					okAll = false
				}
			}
			if okAll {
				continue
			}
		}
		r := x.g.Const("frame.r", SortRef)
		var cond string
		if fe.idx == "" {
			var ex []string
			for _, a := range allowed[k] {
				ex = append(ex, not(eq(r, a.ref)))
			}
			cond = and(append([]string{retReach, "(bvult " + r + " " + refLit(AllocBase) + ")", not(eq(r, NilRef)),
				not(eq("(select "+fe.term+" "+r+")", "(select "+et+" "+r+")"))}, ex...)...)
		} else {
			i := x.g.Const("frame.i", fe.idx)
			var ex []string
			for _, a := range allowed[k] {
				if a.all || a.idx == "" {
					ex = append(ex, not(eq(r, a.ref)))
				} else {
					ex = append(ex, not(and(eq(r, a.ref), eq(i, a.idx))))
				}
			}
			cond = and(append([]string{retReach, "(bvult " + r + " " + refLit(AllocBase) + ")", not(eq(r, NilRef)),
				not(eq("(select (select "+fe.term+" "+r+") "+i+")", "(select (select "+et+" "+r+") "+i+")"))}, ex...)...)
		}
		x.oblige("frame", k+x.frameSuffix, props, cond, f.fn, token.NoPos)
		x.lastObl.Group = "frame:" + k
	}
}

// QuickTier is set by the quick check: clauses tagged `thorough` are then not generated.
var QuickTier bool

func clauseThoroughOnly(cl *Clause) bool {
	for _, p := range cl.Props {
		if p == "thorough" {
			return true
		}
	}
	return false
}
