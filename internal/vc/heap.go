package vc

import (
	"sort"

	"golang.org/x/tools/go/ssa"
)

// hent is the current term of one heap array together with the base it was derived
// from by stores (used for the "objects read from the pre-state are old" assumption).
type hent struct {
	term string
	sort string // sort of the stored component (not of the array)
	idx  string // "" = one-level heap; otherwise the index sort of the second level (elements, map keys)
	// term = base with stores at the object references in refs (syntactic set); used to merge
	// heaps at control-flow joins without if-then-else over whole arrays
	base string
	refs []string
}

// epoch is created when a cut loop (or a contract call with unknown frame) havocs the
// whole heap. Keys first touched after the havoc get a fresh base; keys that the loop
// does not write are later equated with their pre-loop value.
type epoch struct {
	id      int
	pre     *Heap
	written map[string]bool
	all     bool // everything may have been written (no equalities)
	bases   map[string]string
	sorts   map[string]hent
	limit   uint32
	body    map[*ssa.BasicBlock]bool
	final   bool // the loop has been executed completely: `written` is final
	// position in the write log and in the declaration list when the epoch began
	logStart  int
	itemStart int
	refStable map[string]bool
}

type writeRec struct{ key, ref string }

// Heap maps heap keys to array terms. It is copied when control flow forks.
type Heap struct {
	m  map[string]hent
	ep *epoch
	// alts: the heap is a merge of heaps from different havoc epochs: a key touched for
	// the first time after the merge takes, under each condition, the base of that epoch
	alts []heapAlt
}

type heapAlt struct {
	cond string
	ep   *epoch
}

func (h *Heap) clone() *Heap {
	n := &Heap{m: make(map[string]hent, len(h.m)+4), ep: h.ep, alts: h.alts}
	for k, v := range h.m {
		n.m[k] = v
	}
	return n
}

func heapArraySort(sort string, idx string) string {
	if idx != "" {
		return arrSort(SortRef, arrSort(idx, sort))
	}
	return arrSort(SortRef, sort)
}

// get returns the current array term for key, declaring its base lazily.
func (x *Exec) hget(h *Heap, key, sort string, idx string) string {
	if e, ok := h.m[key]; ok {
		if e.sort != sort || e.idx != idx {
			unsup("heap key %s used at two sorts (%s / %s)", key, e.sort, sort)
		}
		return e.term
	}
	var t string
	if len(h.alts) > 0 {
		t = x.baseFor(h.alts[len(h.alts)-1].ep, key, sort, idx)
		for i := len(h.alts) - 2; i >= 0; i-- {
			t = ite(h.alts[i].cond, x.baseFor(h.alts[i].ep, key, sort, idx), t)
		}
		t = x.g.Fresh(heapArraySort(sort, idx), t)
	} else {
		t = x.baseFor(h.ep, key, sort, idx)
	}
	h.m[key] = hent{term: t, sort: sort, idx: idx, base: t}
	return t
}

func (x *Exec) baseFor(ep *epoch, key, sort string, idx string) string {
	if ep == nil {
		if init, ok := x.globalsInit[key]; ok {
			return init
		}
		return x.g.Named("H0:"+key, heapArraySort(sort, idx))
	}
	if b, ok := ep.bases[key]; ok {
		return b
	}
	if ep.final && !ep.written[key] && !ep.all {
		// first touched after the loop has been closed and never written in it: the value
		// it had before the loop
		b := x.hget(ep.pre, key, sort, idx)
		ep.bases[key] = b
		ep.sorts[key] = hent{term: b, sort: sort, idx: idx, base: b}
		return b
	}
	b := x.g.Const("H"+itoa(ep.id)+":"+key, heapArraySort(sort, idx))
	ep.bases[key] = b
	ep.sorts[key] = hent{term: b, sort: sort, idx: idx, base: b}
	return b
}

// hset records that the array of key is now term, obtained from the previous array by
// a store at object reference ref ("" = unrelated term: it becomes a new base).
func (x *Exec) hset(h *Heap, key, sort string, idx string, term string, ref string) {
	x.writeLog = append(x.writeLog, writeRec{key, ref})
	old, ok := h.m[key]
	if !ok || ref == "" || old.base == "" {
		h.m[key] = hent{term: term, sort: sort, idx: idx, base: term}
		return
	}
	refs := old.refs
	found := false
	for _, r := range refs {
		if r == ref {
			found = true
		}
	}
	if !found {
		refs = append(append([]string{}, refs...), ref)
	}
	h.m[key] = hent{term: term, sort: sort, idx: idx, base: old.base, refs: refs}
}

// havocAll starts a new epoch: every heap array becomes unknown.
func (x *Exec) havocAll(h *Heap, all bool) (*Heap, *epoch) {
	x.epochN++
	ep := &epoch{id: x.epochN, pre: h.clone(), written: map[string]bool{}, bases: map[string]string{}, sorts: map[string]hent{}, all: all,
		limit: x.allocLimit(), logStart: len(x.writeLog), itemStart: len(x.g.items)}
	x.epochs = append(x.epochs, ep)
	return &Heap{m: map[string]hent{}, ep: ep}, ep
}

// finalizeEpochs adds, for every key that a cut loop did not write, the equality of
// its post-havoc base with its pre-loop value.
func (x *Exec) finalizeEpochs() {
	for i := len(x.epochs) - 1; i >= 0; i-- {
		ep := x.epochs[i]
		ep.final = true
		if ep.all {
			continue
		}
		var keys []string
		for k := range ep.bases {
			keys = append(keys, k)
		}
		sort.Strings(keys)
		for _, k := range keys {
			s := ep.sorts[k]
			if ep.written[k] {
				// written in the loop: if every write went to an object that is the same in every
				// iteration (a parameter, something fixed before the loop, a field the loop never
				// writes), all other objects keep the contents they had before the loop
				refs, stable := x.stableRefs(ep, k)
				if stable {
					pre := x.hget(ep.pre, k, s.sort, s.idx)
					t := pre
					for _, r := range refs {
						t = "(store " + t + " " + r + " (select " + ep.bases[k] + " " + r + "))"
					}
					x.g.Assume(eq(ep.bases[k], t))
				}
				continue
			}
			pre := x.hget(ep.pre, k, s.sort, s.idx)
			x.g.Assume(eq(ep.bases[k], pre))
		}
	}
	x.epochs = nil
}

func (x *Exec) mergeHeaps(conds []string, hs []*Heap) *Heap {
	if len(hs) == 1 {
		return hs[0].clone()
	}
	ep := hs[0].ep
	mixed := len(hs[0].alts) > 0
	for _, h := range hs[1:] {
		if h.ep != ep || len(h.alts) > 0 {
			mixed = true
		}
	}
	out := &Heap{m: map[string]hent{}, ep: ep}
	if mixed {
		// heaps of different havoc epochs meet (one branch called something that may change
		// everything, the other did not): a key first touched after the join is, under each
		// branch's condition, that branch's own base
		byEp := map[*epoch]int{}
		add := func(c string, e *epoch) {
			if i, ok := byEp[e]; ok {
				out.alts[i].cond = x.g.Fresh(SortBool, or(out.alts[i].cond, c))
				return
			}
			byEp[e] = len(out.alts)
			out.alts = append(out.alts, heapAlt{x.g.Fresh(SortBool, c), e})
		}
		for i, h := range hs {
			if len(h.alts) > 0 {
				for _, a := range h.alts {
					add(and(conds[i], a.cond), a.ep)
				}
			} else {
				add(conds[i], h.ep)
			}
		}
		out.ep = commonEpoch(ep, hs[len(hs)-1].ep)
		if len(out.alts) == 1 {
			out.ep = out.alts[0].ep
			out.alts = nil
		}
	}
	keys := map[string]hent{}
	for _, h := range hs {
		for k, v := range h.m {
			keys[k] = v
		}
	}
	var ks []string
	for k := range keys {
		ks = append(ks, k)
	}
	sort.Strings(ks)
	for _, k := range ks {
		meta := keys[k]
		ents := make([]hent, len(hs))
		same := true
		sameBase := true
		for i, h := range hs {
			x.hget(h, k, meta.sort, meta.idx)
			ents[i] = h.m[k]
			if ents[i].term != ents[0].term {
				same = false
			}
			if ents[i].base != ents[0].base || ents[i].base == "" {
				sameBase = false
			}
		}
		if same {
			out.m[k] = ents[0]
			continue
		}
		if sameBase {
			// all versions are the same base plus stores: rebuild the merged array as the base
			// with one store per touched object, each holding the merged value at that object
			var refs []string
			seen := map[string]bool{}
			for _, e := range ents {
				for _, r := range e.refs {
					if !seen[r] {
						seen[r] = true
						refs = append(refs, r)
					}
				}
			}
			if len(refs) <= 24 {
				vs := meta.sort
				if meta.idx != "" {
					vs = arrSort(meta.idx, meta.sort)
				}
				t := ents[0].base
				for _, r := range refs {
					v := "(select " + ents[len(ents)-1].term + " " + r + ")"
					for i := len(ents) - 2; i >= 0; i-- {
						v = ite(conds[i], "(select "+ents[i].term+" "+r+")", v)
					}
					t = "(store " + t + " " + r + " " + x.g.Fresh(vs, v) + ")"
				}
				out.m[k] = hent{term: x.g.Fresh(heapArraySort(meta.sort, meta.idx), t), sort: meta.sort, idx: meta.idx, base: ents[0].base, refs: refs}
				continue
			}
		}
		t := ents[len(ents)-1].term
		for i := len(ents) - 2; i >= 0; i-- {
			t = ite(conds[i], ents[i].term, t)
		}
		nt := x.g.Fresh(heapArraySort(meta.sort, meta.idx), t)
		out.m[k] = hent{term: nt, sort: meta.sort, idx: meta.idx, base: nt}
	}
	return out
}

func commonEpoch(a, b *epoch) *epoch {
	// epochs form a chain through pre.ep; pick the deeper (later) one: keys missing from a
	// heap are materialised from that heap's own epoch by hget before merging, so the
	// merged heap only needs an epoch for keys nobody has touched yet; the later epoch is
	// the sound choice only if it is a descendant of the other, which holds for
	// structured loops.
	if a == nil {
		return b
	}
	if b == nil {
		return a
	}
	if a.id > b.id {
		return a
	}
	return b
}

func itoa(i int) string {
	if i == 0 {
		return "0"
	}
	neg := i < 0
	if neg {
		i = -i
	}
	var b []byte
	for i > 0 {
		b = append([]byte{byte('0' + i%10)}, b...)
		i /= 10
	}
	if neg {
		b = append([]byte{'-'}, b...)
	}
	return string(b)
}

// stableRefs returns the object references written under key k since the epoch began and
// whether each of them denotes the same object in every iteration of the loop.
func (x *Exec) stableRefs(ep *epoch, k string) ([]string, bool) {
	seen := map[string]bool{}
	var refs []string
	for _, w := range x.writeLog[ep.logStart:] {
		if w.key != k || seen[w.ref] {
			continue
		}
		seen[w.ref] = true
		if w.ref == "" {
			return nil, false
		}
		refs = append(refs, w.ref)
	}
	if len(refs) > 8 {
		return nil, false
	}
	unwrittenBase := map[string]bool{}
	for key, b := range ep.bases {
		if !ep.written[key] {
			unwrittenBase[b] = true
		}
	}
	g := x.g
	if ep.refStable == nil {
		ep.refStable = map[string]bool{}
	}
	for _, r := range refs {
		if isAllocRef(r) || isLiteral(r) {
			continue
		}
		if st, seen := ep.refStable[r]; seen {
			if !st {
				return nil, false
			}
			continue
		}
		ok := true
		in := map[int]bool{}
		var start []int
		g.symbolsIn(r, func(i int) { start = append(start, i) })
		g.closure(start, in)
		for i := range in {
			it := g.items[i]
			if it.kind != "declare" {
				continue
			}
			if i < ep.itemStart || unwrittenBase[it.name] {
				continue
			}
			ok = false
		}
		ep.refStable[r] = ok
		if !ok {
			return nil, false
		}
	}
	return refs, true
}
