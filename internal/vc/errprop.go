package vc

import (
	"fmt"
	"go/ast"
	"go/token"
	"go/types"
	"sort"
	"strings"

	"golang.org/x/tools/go/ssa"
)

// Error-propagation obligations (C12, C19): for every call inside package ion whose callee
// returns an error, the error value is used - it reaches a return, a store, a comparison
// or another call. One obligation per call site, named
//
//	<function>:errprop:<callee>#k
//
// and decided on go/ssa without a solver: the error result has a referrer other than a
// debug reference. A call whose error is explicitly assigned to the blank identifier in
// the source (`_ = f()`, `v, _ := f()`) is exempt: that is the author's statement that the
// error cannot matter there; such sites are listed in the obligation's detail and in the
// evidence. Calls in `defer` and `go` statements are obligations too (their result can
// never be used, so they fail unless the callee returns no error).
func ErrPropScan(w *World) []FrameObligation {
	var out []FrameObligation
	fset := w.Prog.Fset
	errT := types.Universe.Lookup("error").Type()
	for _, fn := range frameFuncs(w) {
		name := funcID(fn)
		if fn.Parent() != nil {
			name = funcID(fn.Parent()) + "$" + fn.Name()
		}
		blank := blankErrorCalls(fn)
		ordinal := map[string]int{}
		for _, b := range fn.Blocks {
			for _, ins := range b.Instrs {
				var common *ssa.CallCommon
				var val ssa.Value
				switch in := ins.(type) {
				case *ssa.Call:
					common, val = &in.Call, in
				case *ssa.Defer:
					common = &in.Call
				case *ssa.Go:
					common = &in.Call
				default:
					continue
				}
				sig := common.Signature()
				if sig == nil || sig.Results().Len() == 0 {
					continue
				}
				last := sig.Results().Len() - 1
				if !types.Identical(sig.Results().At(last).Type(), errT) {
					continue
				}
				callee := "func value"
				if common.IsInvoke() {
					callee = ifaceMethodID(Val{T: common.Value.Type()}, common.Method)
				} else if sc := common.StaticCallee(); sc != nil {
					callee = funcID(sc)
					if sc.Pkg != nil && sc.Pkg.Pkg != nil && !strings.HasPrefix(sc.Pkg.Pkg.Path(), repoPrefix) {
						callee = sc.Pkg.Pkg.Name() + "." + callee
					}
				}
				k := ordinal[callee]
				ordinal[callee]++
				ob := FrameObligation{Name: fmt.Sprintf("%s:errprop:%s#%d", name, callee, k), Func: name, Kind: "errprop", Pos: fset.Position(ins.Pos())}
				used := false
				if val != nil {
					if sig.Results().Len() == 1 {
						used = hasRealReferrer(val)
					} else {
						for _, r := range *val.Referrers() {
							if ex, ok := r.(*ssa.Extract); ok && ex.Index == last && hasRealReferrer(ex) {
								used = true
							}
						}
					}
				}
				switch {
				case alwaysNilError[callee]:
					ob.OK, ob.Detail = true, "the callee is documented to always return a nil error (trusted)"
				case used:
					ob.OK, ob.Detail = true, "the error result is used"
				case blank[ins.Pos()]:
					ob.OK, ob.Detail = true, "the error result is explicitly assigned to the blank identifier in the source (exempt)"
				default:
					ob.Detail = fmt.Sprintf("the error returned by %s at %s is dropped: it reaches no return, store, comparison or call", callee, fset.Position(ins.Pos()))
				}
				out = append(out, ob)
			}
		}
	}
	sort.SliceStable(out, func(i, j int) bool { return out[i].Name < out[j].Name })
	return out
}

// library methods whose error result is documented to be always nil
var alwaysNilError = map[string]bool{
	"strings.(*Builder).Write": true, "strings.(*Builder).WriteByte": true, "strings.(*Builder).WriteRune": true, "strings.(*Builder).WriteString": true,
	"bytes.(*Buffer).Write": true, "bytes.(*Buffer).WriteByte": true, "bytes.(*Buffer).WriteRune": true, "bytes.(*Buffer).WriteString": true,
}

func hasRealReferrer(v ssa.Value) bool {
	refs := v.Referrers()
	if refs == nil {
		return false
	}
	for _, r := range *refs {
		if _, ok := r.(*ssa.DebugRef); ok {
			continue
		}
		return true
	}
	return false
}

// blankErrorCalls finds the calls whose last result is assigned to `_` in the source of fn
// (keyed by the position go/ssa gives the call instruction: the opening parenthesis).
func blankErrorCalls(fn *ssa.Function) map[token.Pos]bool {
	out := map[token.Pos]bool{}
	syn := fn.Syntax()
	if syn == nil {
		return out
	}
	ast.Inspect(syn, func(n ast.Node) bool {
		as, ok := n.(*ast.AssignStmt)
		if !ok || len(as.Rhs) != 1 {
			return true
		}
		call, ok := as.Rhs[0].(*ast.CallExpr)
		if !ok {
			return true
		}
		if id, ok := as.Lhs[len(as.Lhs)-1].(*ast.Ident); ok && id.Name == "_" {
			out[call.Lparen] = true
		}
		return true
	})
	return out
}
