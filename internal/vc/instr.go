package vc

import (
	"fmt"
	"go/constant"
	"go/token"
	"go/types"
	"math"
	"math/big"
	"strings"

	"golang.org/x/tools/go/ssa"
)

func (x *Exec) constVal(c *ssa.Const) Val {
	t := c.Type()
	if c.Value == nil {
		return x.zero(t)
	}
	if w, _, ok := intInfo(t); ok {
		v := constant.ToInt(c.Value)
		var u uint64
		if i, exact := constant.Int64Val(v); exact {
			u = uint64(i)
		} else if uu, exact := constant.Uint64Val(v); exact {
			u = uu
		} else {
			unsup("integer constant %s out of range", c.Value)
		}
		return Val{T: t, C: []string{bvLit(u, w)}}
	}
	if k, ok := isFloat(t); ok {
		f, _ := constant.Float64Val(c.Value)
		return Val{T: t, C: []string{fpLit(f, k)}}
	}
	if isBool(t) {
		if constant.BoolVal(c.Value) {
			return Val{T: t, C: []string{"true"}}
		}
		return Val{T: t, C: []string{"false"}}
	}
	if isString(t) {
		return x.strLit(t, constant.StringVal(c.Value))
	}
	unsup("constant of type %s", t)
	return Val{}
}

func fpLit(f float64, k types.BasicKind) string {
	if k == types.Float32 {
		b := math.Float32bits(float32(f))
		return fmt.Sprintf("((_ to_fp 8 24) #x%08x)", b)
	}
	b := math.Float64bits(f)
	return fmt.Sprintf("((_ to_fp 11 53) #x%016x)", b)
}

// strLit builds the value of a string literal: a named array constant whose bytes are
// asserted, offset 0 and the literal's length.
func (x *Exec) strLit(t types.Type, s string) Val {
	if s == "" {
		v := x.zero(t)
		v.Lit, v.HasLit = "", true
		return v
	}
	name, ok := x.strIDs[s]
	if !ok {
		name = x.g.Named(fmt.Sprintf("str:%d:%q", len(x.strIDs), abbreviate(s)), arrSort(SortBV64, SortBV8))
		x.strIDs[s] = name
		if len(s) <= 64 {
			var cs []string
			for i := 0; i < len(s); i++ {
				cs = append(cs, eq("(select "+name+" "+bvLit(uint64(i), 64)+")", bvLit(uint64(s[i]), 8)))
			}
			// asserted at top level even when first used inside a quantifier
			x.g.assumes = append(x.g.assumes, and(cs...))
		}
	}
	return Val{T: t, C: []string{name, bvLit(0, 64), bvLit(uint64(len(s)), 64)}, Lit: s, HasLit: true}
}

func abbreviate(s string) string {
	if len(s) > 24 {
		return s[:24]
	}
	return s
}

func (f *frame) edgeConds(n *node, c string) {
	g := f.x.g
	// a condition already decided on every path to this node (same term, thanks to
	// hash-consing) folds the branch
	if a, neg := g.Atom(c); n.facts != nil {
		if v, ok := n.facts[a]; ok {
			if v != neg {
				c = "true"
			} else {
				c = "false"
			}
		}
	}
	n.branch = c
	n.edges = []string{g.Fresh(SortBool, and(n.reach, c)), g.Fresh(SortBool, and(n.reach, not(c)))}
}

// execInstr executes one instruction; it returns false when the path ends (panic).
func (f *frame) execInstr(n *node, ins ssa.Instruction) bool {
	x := f.x
	g := x.g
	val := func(v ssa.Value) Val { return f.lookup(n, v) }
	switch in := ins.(type) {
	case *ssa.DebugRef:
		return true

	case *ssa.Phi:
		if _, ok := n.env[in]; ok {
			return true // header of a cut loop: already havocked
		}
		var res Val
		for i := len(n.in) - 1; i >= 0; i-- {
			e := n.in[i]
			if e.predSlot < 0 {
				unsup("phi edge not found in %s", f.fn.Name())
			}
			v := f.lookup(e.from, in.Edges[e.predSlot])
			v = x.coerce(v, in.Type())
			if i == len(n.in)-1 {
				res = v
			} else {
				res = x.iteVal(e.cond, v, res)
			}
		}
		res.T = in.Type()
		n.env[in] = res

	case *ssa.BinOp:
		n.env[in] = f.binop(n, in)

	case *ssa.UnOp:
		xv := val(in.X)
		switch in.Op {
		case token.MUL:
			n.env[in] = f.load(n, xv, in.Type(), in.Pos(), describe(in.X))
		case token.NOT:
			n.env[in] = Val{T: in.Type(), C: []string{g.Fresh(SortBool, not(xv.C[0]))}}
		case token.SUB:
			if k, ok := isFloat(in.Type()); ok {
				n.env[in] = Val{T: in.Type(), C: []string{g.Fresh(fpSort(k), "(fp.neg "+xv.C[0]+")")}}
			} else {
				w, _, _ := intInfo(in.Type())
				n.env[in] = Val{T: in.Type(), C: []string{g.Fresh(bvSort(w), "(bvneg "+xv.C[0]+")")}}
			}
		case token.XOR:
			w, _, _ := intInfo(in.Type())
			n.env[in] = Val{T: in.Type(), C: []string{g.Fresh(bvSort(w), "(bvnot "+xv.C[0]+")")}}
		default:
			unsup("unary operator %s", in.Op)
		}

	case *ssa.Convert:
		n.env[in] = f.convert(n, in)

	case *ssa.ChangeType:
		v := val(in.X)
		v.T = in.Type()
		n.env[in] = v

	case *ssa.ChangeInterface:
		v := val(in.X)
		v.T = in.Type()
		n.env[in] = v

	case *ssa.MakeInterface:
		n.env[in] = f.makeInterface(n, val(in.X), in.X.Type(), in.Type())

	case *ssa.TypeAssert:
		return f.typeAssert(n, in)

	case *ssa.Alloc:
		n.env[in] = f.alloc(n, in.Type().Underlying().(*types.Pointer).Elem(), in.Type())

	case *ssa.FieldAddr:
		p := val(in.X)
		x.safety(f, n, "nil", "."+fieldName(in.X.Type(), in.Field), not(eq(p.C[0], NilRef)), in.Pos())
		st := derefStruct(in.X.Type())
		fld := st.Field(in.Field)
		n.env[in] = Val{T: in.Type(), C: p.C, Key: x.ptrKey(p) + "." + fld.Name(), Idx: p.Idx, Old: p.Old}

	case *ssa.Field:
		s := val(in.X)
		st := in.X.Type().Underlying().(*types.Struct)
		off := 0
		for i := 0; i < in.Field; i++ {
			off += len(x.comps(st.Field(i).Type()))
		}
		cnt := len(x.comps(st.Field(in.Field).Type()))
		n.env[in] = Val{T: in.Type(), C: s.C[off : off+cnt], Old: s.Old}

	case *ssa.IndexAddr:
		n.env[in] = f.indexAddr(n, in)

	case *ssa.Index:
		coll := val(in.X)
		idx := x.toInt64(val(in.Index))
		switch u := in.X.Type().Underlying().(type) {
		case *types.Array:
			x.safety(f, n, "index", describe(in.X), "(bvult "+idx+" "+bvLit(uint64(u.Len()), 64)+")", in.Pos())
			cs := x.comps(in.Type())
			r := Val{T: in.Type()}
			for i := range cs {
				r.C = append(r.C, g.Fresh(cs[i].sort, "(select "+coll.C[i]+" "+idx+")"))
			}
			n.env[in] = r
		case *types.Basic: // string
			x.safety(f, n, "index", describe(in.X), "(bvult "+idx+" "+coll.C[2]+")", in.Pos())
			n.env[in] = Val{T: in.Type(), C: []string{g.Fresh(SortBV8, "(select "+coll.C[0]+" (bvadd "+coll.C[1]+" "+idx+"))")}}
		default:
			unsup("index of %s", in.X.Type())
		}

	case *ssa.Lookup:
		return f.lookupInstr(n, in)

	case *ssa.Slice:
		n.env[in] = f.sliceInstr(n, in)

	case *ssa.Store:
		f.store(n, val(in.Addr), x.coerce(val(in.Val), in.Addr.Type().Underlying().(*types.Pointer).Elem()), in.Pos(), describe(in.Addr))

	case *ssa.MakeSlice:
		ln := x.toInt64(val(in.Len))
		cp := x.toInt64(val(in.Cap))
		x.safety(f, n, "makeslice", "len", and("(bvsle (_ bv0 64) "+ln+")", "(bvsle "+ln+" "+cp+")", "(bvult "+cp+" #x4000000000000000)"), in.Pos())
		if !x.inSpec() && !f.spec {
			x.allocSite(f, n, in, ln)
		}
		ref := x.newRef()
		et := in.Type().Underlying().(*types.Slice).Elem()
		f.initElems(n, ref, elemKey(et), et)
		n.env[in] = Val{T: in.Type(), C: []string{ref, bvLit(0, 64), ln, cp}}

	case *ssa.MakeMap:
		ref := x.newRef()
		f.initMap(n, ref, in.Type())
		n.env[in] = Val{T: in.Type(), C: []string{ref}}

	case *ssa.MapUpdate:
		f.mapUpdate(n, in)

	case *ssa.MakeClosure:
		fn := in.Fn.(*ssa.Function)
		v := Val{T: in.Type(), C: []string{refLit(1)}, Fn: fn}
		for _, b := range in.Bindings {
			v.Bind = append(v.Bind, val(b))
		}
		n.env[in] = v

	case *ssa.Extract:
		t := val(in.Tuple)
		if in.Index >= len(t.Sub) {
			unsup("extract %d of %d-tuple", in.Index, len(t.Sub))
		}
		n.env[in] = t.Sub[in.Index]

	case *ssa.Call:
		return f.call(n, in)

	case *ssa.If:
		f.edgeConds(n, val(in.Cond).C[0])

	case *ssa.Jump:
		n.edges = []string{n.reach}

	case *ssa.Return:
		var rv Val
		sig := f.fn.Signature
		switch len(in.Results) {
		case 0:
			rv = Val{T: sig.Results()}
		case 1:
			rv = x.coerce(val(in.Results[0]), sig.Results().At(0).Type())
		default:
			rv = Val{T: sig.Results()}
			for i, r := range in.Results {
				rv.Sub = append(rv.Sub, x.coerce(val(r), sig.Results().At(i).Type()))
			}
		}
		f.rets = append(f.rets, retInfo{n.reach, rv, n.heap, n.facts, in.Pos()})

	case *ssa.Panic:
		if !f.spec && !x.inSpec() && x.safeOn {
			x.oblige("safe", "panic:"+panicText(in), x.safeProps, n.reach, f.fn, in.Pos())
		}
		return false

	case *ssa.RunDefers:
		// no defers are modelled; functions with Defer are rejected below
	case *ssa.Defer:
		unsup("defer")
	case *ssa.Go:
		unsup("go statement")
	case *ssa.Range:
		n.env[in] = f.rangeInit(n, in)
	case *ssa.Next:
		n.env[in] = f.rangeNext(n, in)
	default:
		unsup("instruction %T", ins)
	}
	return true
}

func panicText(p *ssa.Panic) string {
	if mi, ok := p.X.(*ssa.MakeInterface); ok {
		if c, ok := mi.X.(*ssa.Const); ok && c.Value != nil && c.Value.Kind() == constant.String {
			return abbreviate(constant.StringVal(c.Value))
		}
		if call, ok := mi.X.(*ssa.Call); ok {
			if len(call.Call.Args) > 0 {
				if c, ok := call.Call.Args[0].(*ssa.Const); ok && c.Value != nil && c.Value.Kind() == constant.String {
					return abbreviate(constant.StringVal(c.Value))
				}
			}
		}
	}
	return "panic"
}

func describe(v ssa.Value) string {
	switch t := v.(type) {
	case *ssa.FieldAddr:
		return describe(t.X) + "." + fieldName(t.X.Type(), t.Field)
	case *ssa.Parameter:
		return t.Name()
	case *ssa.Global:
		return t.Name()
	case *ssa.IndexAddr:
		return describe(t.X) + "[]"
	case *ssa.UnOp:
		if t.Op == token.MUL {
			return describe(t.X)
		}
	case *ssa.Call:
		if c := t.Call.StaticCallee(); c != nil {
			return c.Name() + "()"
		}
		if t.Call.IsInvoke() {
			return t.Call.Method.Name() + "()"
		}
	case *ssa.Extract:
		return describe(t.Tuple)
	case *ssa.Alloc:
		if t.Comment != "" {
			return t.Comment
		}
	case *ssa.Phi:
		if t.Comment != "" {
			return t.Comment
		}
	case *ssa.Slice:
		return describe(t.X) + "[:]"
	case *ssa.FreeVar:
		return t.Name()
	}
	return "tmp"
}

func derefStruct(t types.Type) *types.Struct {
	p := t.Underlying().(*types.Pointer)
	return p.Elem().Underlying().(*types.Struct)
}

func fieldName(ptrT types.Type, i int) string {
	return derefStruct(ptrT).Field(i).Name()
}

// coerce adapts a value to a (possibly different but assignable) static type.
func (x *Exec) coerce(v Val, t types.Type) Val {
	if v.T == nil {
		v.T = t
		return v
	}
	// untyped nil constants arrive as zero values of the right type already
	if len(v.Sub) == 0 {
		nv := v
		nv.T = t
		return nv
	}
	return v
}

func (x *Exec) toInt64(v Val) string {
	w, signed, ok := intInfo(v.T)
	if !ok {
		unsup("integer expected, got %s", v.T)
	}
	if w == 64 {
		return v.C[0]
	}
	if signed {
		return x.g.Fresh(SortBV64, fmt.Sprintf("((_ sign_extend %d) %s)", 64-w, v.C[0]))
	}
	return x.g.Fresh(SortBV64, fmt.Sprintf("((_ zero_extend %d) %s)", 64-w, v.C[0]))
}

// ---------------------------------------------------------------------------
// memory

func (f *frame) heapFor(n *node, p Val) *Heap {
	if p.Old {
		if len(f.x.oldHeaps) == 0 {
			unsup("old() outside a two-state clause")
		}
		return f.x.oldHeaps[len(f.x.oldHeaps)-1]
	}
	return n.heap
}

func (f *frame) load(n *node, p Val, t types.Type, pos token.Pos, what string) Val {
	x := f.x
	g := x.g
	x.safety(f, n, "nil", "*"+what, not(eq(p.C[0], NilRef)), pos)
	key := x.ptrKey(p)
	if strings.HasPrefix(key, "global:") && !strings.HasPrefix(key, "global:ion.") && !strings.HasPrefix(key, "global:main.") {
		if _, ok := t.Underlying().(*types.Interface); ok {
			// library sentinel (io.EOF, io.ErrUnexpectedEOF, bufio.ErrBufferFull ...): a fixed non-nil
			// value, distinct from every other sentinel, never reassigned (assumption)
			id, ok := x.sentinels[key]
			if !ok {
				id = uint32(len(x.sentinels) + 2)
				x.sentinels[key] = id
			}
			x.note("library variable %s is a constant non-nil sentinel distinct from all others", strings.TrimPrefix(key, "global:"))
			return Val{T: t, C: []string{bvLit(3, 32), refLit(id)}}
		}
	}
	h := f.heapFor(n, p)
	r := Val{T: t, Old: p.Old}
	// in specification code a field read through a nil pointer yields the zero value (so
	// that `modifies` and clauses may name the fields of an object that is only
	// sometimes there, e.g. the reader behind an interface after a type assertion)
	specNil := (f.spec || x.inSpec()) && p.Idx == "" && isNil(p.C[0])
	for _, c := range x.comps(t) {
		if p.Idx != "" {
			arr := x.hget(h, key+c.suffix+"[]", c.sort, SortBV64)
			r.C = append(r.C, g.Fresh(c.sort, "(select (select "+arr+" "+p.C[0]+") "+p.Idx+")"))
		} else {
			arr := x.hget(h, key+c.suffix, c.sort, "")
			if specNil {
				r.C = append(r.C, zeroOfSort(x, c.sort))
			} else {
				r.C = append(r.C, g.Fresh(c.sort, "(select "+arr+" "+p.C[0]+")"))
			}
		}
	}
	if !x.g.InQuant() {
		x.assumeWellFormed(r, n.reach)
	}
	if p.Idx == "" {
		if m, ok := x.cells[p.C[0]+"/"+key]; ok && m.stores == 1 {
			// a local cell written exactly once (a spilled parameter, a captured variable):
			// the static attributes of the stored value survive the round trip
			r.Old, r.Key, r.Idx, r.Fn, r.Bind, r.Dyn, r.StaticCap, r.Lit, r.HasLit = m.v.Old, m.v.Key, m.v.Idx, m.v.Fn, m.v.Bind, m.v.Dyn, m.v.StaticCap, m.v.Lit, m.v.HasLit
		}
	}
	return r
}

func isAllocRef(t string) bool {
	return len(t) == 10 && strings.HasPrefix(t, "#x") && t[2] >= '8'
}

func (f *frame) store(n *node, p Val, v Val, pos token.Pos, what string) {
	x := f.x
	g := x.g
	if p.Old {
		unsup("store through an old() pointer")
	}
	x.safety(f, n, "nil", "*"+what+"=", not(eq(p.C[0], NilRef)), pos)
	key := x.ptrKey(p)
	pt := p.T.Underlying().(*types.Pointer).Elem()
	cs := x.comps(pt)
	if len(cs) != len(v.C) {
		unsup("store of %s into %s: shape mismatch", v.T, pt)
	}
	single := false
	if p.Idx == "" && isAllocRef(p.C[0]) {
		ck := p.C[0] + "/" + key
		m := x.cells[ck]
		if m == nil {
			m = &cellMeta{}
			x.cells[ck] = m
		}
		if !(what == "alloc" && m.stores == 0) {
			m.stores++
			m.v = v
		}
		single = m.stores <= 1
	}
	if !single && (v.Idx != "" || (v.Key != "" && isPtr(v.T) && v.Key != pointeeKey(v.T.Underlying().(*types.Pointer).Elem()))) {
		unsup("interior pointer %s escapes to the heap (%s)", v.Key, what)
	}
	eps := f.activeEpochs(n)
	for i, c := range cs {
		if p.Idx != "" {
			k := key + c.suffix + "[]"
			arr := x.hget(n.heap, k, c.sort, SortBV64)
			inner := "(store (select " + arr + " " + p.C[0] + ") " + p.Idx + " " + v.C[i] + ")"
			x.hset(n.heap, k, c.sort, SortBV64, g.Fresh(heapArraySort(c.sort, SortBV64), "(store "+arr+" "+p.C[0]+" "+inner+")"), p.C[0])
			for _, ep := range eps {
				ep.written[k] = true
			}
		} else {
			k := key + c.suffix
			arr := x.hget(n.heap, k, c.sort, "")
			x.hset(n.heap, k, c.sort, "", g.Fresh(heapArraySort(c.sort, ""), "(store "+arr+" "+p.C[0]+" "+v.C[i]+")"), p.C[0])
			for _, ep := range eps {
				ep.written[k] = true
			}
		}
	}
}

func isPtr(t types.Type) bool {
	_, ok := t.Underlying().(*types.Pointer)
	return ok
}

func (f *frame) alloc(n *node, elem types.Type, ptrT types.Type) Val {
	x := f.x
	ref := x.newRef()
	p := Val{T: ptrT, C: []string{ref}}
	if at, ok := elem.Underlying().(*types.Array); ok {
		f.initElems(n, ref, elemKey(at.Elem()), at.Elem())
		return p
	}
	z := x.zero(elem)
	f.store(n, p, z, token.NoPos, "alloc")
	if name, ok := isOpaque(elem); ok && name == "math/big.Int" {
		f.bigStore(n, ref, "0") // the zero value of big.Int is 0
	}
	if name, ok := isOpaque(elem); ok && name == "strings.Builder" {
		// the zero value of strings.Builder is an empty builder (ghost contents vcBuffer)
		if pkg := x.w.Pkgs["ion"]; pkg != nil {
			if obj := pkg.Pkg.Scope().Lookup("vcBuffer"); obj != nil {
				gp := Val{T: types.NewPointer(obj.Type()), C: []string{ref}}
				f.store(n, gp, x.zero(obj.Type()), token.NoPos, "alloc")
			}
		}
	}
	return p
}

// initElems zero-fills the element arrays of a freshly allocated backing array.
func (f *frame) initElems(n *node, ref, key string, et types.Type) {
	x := f.x
	eps := f.activeEpochs(n)
	for _, c := range x.comps(et) {
		k := key + c.suffix + "[]"
		arr := x.hget(n.heap, k, c.sort, SortBV64)
		z := zeroOfSort(x, arrSort(SortBV64, c.sort))
		x.hset(n.heap, k, c.sort, SortBV64, x.g.Fresh(heapArraySort(c.sort, SortBV64), "(store "+arr+" "+ref+" "+z+")"), ref)
		for _, ep := range eps {
			ep.written[k] = true
		}
	}
}

func (f *frame) indexAddr(n *node, in *ssa.IndexAddr) Val {
	x := f.x
	coll := f.lookup(n, in.X)
	idx := x.toInt64(f.lookup(n, in.Index))
	switch u := in.X.Type().Underlying().(type) {
	case *types.Slice:
		x.safety(f, n, "index", describe(in.X), "(bvult "+idx+" "+coll.C[2]+")", in.Pos())
		return Val{T: in.Type(), C: []string{coll.C[0]}, Key: x.sliceKey(coll), Idx: x.g.Fresh(SortBV64, "(bvadd "+coll.C[1]+" "+idx+")"), Old: coll.Old}
	case *types.Pointer:
		at := u.Elem().Underlying().(*types.Array)
		x.safety(f, n, "nil", describe(in.X), not(eq(coll.C[0], NilRef)), in.Pos())
		x.safety(f, n, "index", describe(in.X), "(bvult "+idx+" "+bvLit(uint64(at.Len()), 64)+")", in.Pos())
		base := idx
		if coll.Idx != "" {
			unsup("array inside an array element")
		}
		return Val{T: in.Type(), C: []string{coll.C[0]}, Key: x.ptrKey(coll), Idx: base, Old: coll.Old}
	}
	unsup("IndexAddr on %s", in.X.Type())
	return Val{}
}

func (f *frame) sliceInstr(n *node, in *ssa.Slice) Val {
	x := f.x
	g := x.g
	src := f.lookup(n, in.X)
	var lo, hi, mx string
	if in.Low != nil {
		lo = x.toInt64(f.lookup(n, in.Low))
	} else {
		lo = bvLit(0, 64)
	}
	if in.High != nil {
		hi = x.toInt64(f.lookup(n, in.High))
	}
	if in.Max != nil {
		mx = x.toInt64(f.lookup(n, in.Max))
	}
	switch u := in.X.Type().Underlying().(type) {
	case *types.Slice:
		capT := src.C[3]
		if hi == "" {
			hi = src.C[2]
		}
		limit := capT
		if mx != "" {
			x.safety(f, n, "slice", describe(in.X)+":max", "(bvule "+mx+" "+capT+")", in.Pos())
			limit = mx
		}
		x.safety(f, n, "slice", describe(in.X), and("(bvule "+lo+" "+hi+")", "(bvule "+hi+" "+limit+")"), in.Pos())
		r := Val{T: in.Type(), Key: src.Key, Old: src.Old, StaticCap: src.StaticCap}
		r.C = []string{src.C[0], g.Fresh(SortBV64, "(bvadd "+src.C[1]+" "+lo+")"), g.Fresh(SortBV64, "(bvsub "+hi+" "+lo+")"), g.Fresh(SortBV64, "(bvsub "+limit+" "+lo+")")}
		return r
	case *types.Basic: // string
		if hi == "" {
			hi = src.C[2]
		}
		x.safety(f, n, "slice", describe(in.X), and("(bvule "+lo+" "+hi+")", "(bvule "+hi+" "+src.C[2]+")"), in.Pos())
		r := Val{T: in.Type(), C: []string{src.C[0], g.Fresh(SortBV64, "(bvadd "+src.C[1]+" "+lo+")"), g.Fresh(SortBV64, "(bvsub "+hi+" "+lo+")")}}
		return r
	case *types.Pointer:
		at := u.Elem().Underlying().(*types.Array)
		nn := bvLit(uint64(at.Len()), 64)
		x.safety(f, n, "nil", describe(in.X), not(eq(src.C[0], NilRef)), in.Pos())
		if hi == "" {
			hi = nn
		}
		limit := nn
		if mx != "" {
			limit = mx
		}
		x.safety(f, n, "slice", describe(in.X), and("(bvule "+lo+" "+hi+")", "(bvule "+hi+" "+limit+")", "(bvule "+limit+" "+nn+")"), in.Pos())
		key := x.ptrKey(src)
		r := Val{T: in.Type(), Old: src.Old, StaticCap: int(at.Len())}
		if key != elemKey(at.Elem()) {
			r.Key = key
		}
		if src.Idx != "" {
			unsup("slice of an array element")
		}
		r.C = []string{src.C[0], lo, g.Fresh(SortBV64, "(bvsub "+hi+" "+lo+")"), g.Fresh(SortBV64, "(bvsub "+limit+" "+lo+")")}
		return r
	}
	unsup("slice of %s", in.X.Type())
	return Val{}
}

// ---------------------------------------------------------------------------
// operators

func (f *frame) binop(n *node, in *ssa.BinOp) Val {
	x := f.x
	a := f.lookup(n, in.X)
	b := f.lookup(n, in.Y)
	return x.binopVals(f, n, in.Op, a, b, in.X.Type(), in.Y.Type(), in.Type(), in.Pos())
}

func (x *Exec) binopVals(f *frame, n *node, op token.Token, a, b Val, xt, yt, rt types.Type, pos token.Pos) Val {
	g := x.g
	mkb := func(t string) Val { return Val{T: rt, C: []string{g.Fresh(SortBool, t)}} }
	// comparisons of non-numeric values
	if op == token.EQL || op == token.NEQ {
		var e string
		switch {
		case isString(xt):
			e = x.strEq(a, b)
		case isBool(xt):
			e = eq(a.C[0], b.C[0])
		default:
			if _, ok := isFloat(xt); ok {
				e = "(fp.eq " + a.C[0] + " " + b.C[0] + ")"
				break
			}
			if _, _, ok := intInfo(xt); ok {
				e = eq(a.C[0], b.C[0])
				if va, _, oka := parseBV(a.C[0]); oka {
					if vb, _, okb := parseBV(b.C[0]); okb {
						e = "false"
						if va == vb {
							e = "true"
						}
					}
				}
				break
			}
			switch xt.Underlying().(type) {
			case *types.Slice:
				// only comparison with nil is legal
				other := a
				if isNilConst(a) {
					other = b
				}
				e = eq(other.C[0], NilRef)
			case *types.Interface:
				if isNilConst(a) || isNilConst(b) {
					other := a
					if isNilConst(a) {
						other = b
					}
					e = eq(other.C[0], bvLit(0, 32))
				} else {
					// the other operand may be a concrete value converted by the compiler
					e = and(eq(a.C[0], b.C[0]), eq(a.C[1], b.C[1]))
				}
			case *types.Pointer, *types.Map, *types.Chan, *types.Signature:
				e = eq(a.C[0], b.C[0])
				if a.Idx != "" || b.Idx != "" {
					if a.Idx == "" || b.Idx == "" {
						// an element pointer is never nil and differs from every object pointer
						if isNilConst(a) || isNilConst(b) {
							e = "false"
							break
						}
						fnName := ""
						if f != nil {
							fnName = f.fn.Name()
						}
						unsup("comparison of element pointer with object pointer in %s", fnName)
					}
					e = and(e, eq(a.Idx, b.Idx))
				}
				if a.Key != b.Key && a.Key != "" && b.Key != "" {
					e = "false"
				}
			case *types.Struct, *types.Array:
				var cs []string
				for i := range a.C {
					cs = append(cs, eq(a.C[i], b.C[i]))
				}
				e = and(cs...)
			default:
				unsup("comparison of %s", xt)
			}
		}
		if op == token.NEQ {
			e = not(e)
		}
		return mkb(e)
	}
	if isString(xt) {
		switch op {
		case token.ADD:
			return x.strConcat(a, b, rt)
		default:
			// ordering of strings: uninterpreted
			fn := g.Fun("strcmp", []string{arrSort(SortBV64, SortBV8), SortBV64, SortBV64, arrSort(SortBV64, SortBV8), SortBV64, SortBV64}, SortBV64)
			c := g.Fresh(SortBV64, "("+fn+" "+strings.Join(a.C, " ")+" "+strings.Join(b.C, " ")+")")
			z := bvLit(0, 64)
			switch op {
			case token.LSS:
				return mkb("(bvslt " + c + " " + z + ")")
			case token.LEQ:
				return mkb("(bvsle " + c + " " + z + ")")
			case token.GTR:
				return mkb("(bvsgt " + c + " " + z + ")")
			case token.GEQ:
				return mkb("(bvsge " + c + " " + z + ")")
			}
		}
		unsup("string operator %s", op)
	}
	if k, ok := isFloat(xt); ok {
		s := fpSort(k)
		switch op {
		case token.ADD:
			return Val{T: rt, C: []string{g.Fresh(s, "(fp.add RNE "+a.C[0]+" "+b.C[0]+")")}}
		case token.SUB:
			return Val{T: rt, C: []string{g.Fresh(s, "(fp.sub RNE "+a.C[0]+" "+b.C[0]+")")}}
		case token.MUL:
			return Val{T: rt, C: []string{g.Fresh(s, "(fp.mul RNE "+a.C[0]+" "+b.C[0]+")")}}
		case token.QUO:
			return Val{T: rt, C: []string{g.Fresh(s, "(fp.div RNE "+a.C[0]+" "+b.C[0]+")")}}
		case token.LSS:
			return mkb("(fp.lt " + a.C[0] + " " + b.C[0] + ")")
		case token.LEQ:
			return mkb("(fp.leq " + a.C[0] + " " + b.C[0] + ")")
		case token.GTR:
			return mkb("(fp.gt " + a.C[0] + " " + b.C[0] + ")")
		case token.GEQ:
			return mkb("(fp.geq " + a.C[0] + " " + b.C[0] + ")")
		}
		unsup("float operator %s", op)
	}
	if isBool(xt) {
		switch op {
		case token.AND, token.LAND:
			return mkb(and(a.C[0], b.C[0]))
		case token.OR, token.LOR:
			return mkb(or(a.C[0], b.C[0]))
		}
		unsup("bool operator %s", op)
	}
	w, signed, ok := intInfo(xt)
	if !ok {
		unsup("operator %s on %s", op, xt)
	}
	s := bvSort(w)
	xa, yb := a.C[0], b.C[0]
	if r, ok := foldBV(op, xa, yb, w, signed, yt); ok {
		return Val{T: rt, C: []string{r}}
	}
	bin := func(o string) Val { return Val{T: rt, C: []string{g.Fresh(s, "("+o+" "+xa+" "+yb+")")}} }
	cmp := func(u, sg string) Val {
		if signed {
			return mkb("(" + sg + " " + xa + " " + yb + ")")
		}
		return mkb("(" + u + " " + xa + " " + yb + ")")
	}
	switch op {
	case token.ADD:
		return bin("bvadd")
	case token.SUB:
		return bin("bvsub")
	case token.MUL:
		// x * (c ? k1 : k2) with literal k1, k2 (a sign, a unit): distribute, so that no
		// symbolic multiplier reaches the solver
		for swap := 0; swap < 2; swap++ {
			u, v := xa, yb
			if swap == 1 {
				u, v = yb, xa
			}
			if c, k1, k2, ok := iteOfLiterals(g, v); ok {
				return Val{T: rt, C: []string{g.Fresh(s, ite(c, mulLit(u, k1, w), mulLit(u, k2, w)))}}
			}
			if k, _, ok := parseBV(v); ok {
				return Val{T: rt, C: []string{g.Fresh(s, mulLit(u, k, w))}}
			}
		}
		return bin("bvmul")
	case token.QUO, token.REM:
		if f != nil {
			x.safety(f, n, "divzero", "", not(eq(yb, bvLit(0, w))), pos)
		}
		if op == token.QUO {
			if signed {
				return bin("bvsdiv")
			}
			return bin("bvudiv")
		}
		if signed {
			return bin("bvsrem")
		}
		return bin("bvurem")
	case token.AND:
		return bin("bvand")
	case token.OR:
		return bin("bvor")
	case token.XOR:
		return bin("bvxor")
	case token.AND_NOT:
		return Val{T: rt, C: []string{g.Fresh(s, "(bvand "+xa+" (bvnot "+yb+"))")}}
	case token.SHL, token.SHR:
		yw, ysigned, _ := intInfo(yt)
		if ysigned && f != nil {
			x.safety(f, n, "shift", "negative", "(bvsge "+yb+" "+bvLit(0, yw)+")", pos)
		}
		amt := yb
		big := "false"
		if yw < w {
			amt = fmt.Sprintf("((_ zero_extend %d) %s)", w-yw, yb)
			big = "(bvuge " + amt + " " + bvLit(uint64(w), w) + ")"
		} else if yw > w {
			big = "(bvuge " + yb + " " + bvLit(uint64(w), yw) + ")"
			amt = fmt.Sprintf("((_ extract %d 0) %s)", w-1, yb)
		} else {
			big = "(bvuge " + yb + " " + bvLit(uint64(w), w) + ")"
		}
		o := "bvshl"
		over := bvLit(0, w)
		if op == token.SHR {
			o = "bvlshr"
			if signed {
				o = "bvashr"
				over = "(bvashr " + xa + " " + bvLit(uint64(w-1), w) + ")"
			}
		}
		return Val{T: rt, C: []string{g.Fresh(s, ite(big, over, "("+o+" "+xa+" "+amt+")"))}}
	case token.LSS:
		return cmp("bvult", "bvslt")
	case token.LEQ:
		return cmp("bvule", "bvsle")
	case token.GTR:
		return cmp("bvugt", "bvsgt")
	case token.GEQ:
		return cmp("bvuge", "bvsge")
	}
	unsup("operator %s", op)
	return Val{}
}

func isNilConst(v Val) bool {
	for _, c := range v.C {
		if c != NilRef && c != bvLit(0, 32) && c != bvLit(0, 64) {
			return false
		}
	}
	return len(v.C) > 0 && v.Dyn == nil && v.Fn == nil
}

// strEq returns the term for a == b on strings.
func (x *Exec) strEq(a, b Val) string {
	g := x.g
	if a.HasLit && b.HasLit {
		if a.Lit == b.Lit {
			return "true"
		}
		return "false"
	}
	if b.HasLit {
		a, b = b, a
	}
	if a.HasLit && len(a.Lit) <= 64 {
		cs := []string{eq(b.C[2], bvLit(uint64(len(a.Lit)), 64))}
		for i := 0; i < len(a.Lit); i++ {
			cs = append(cs, eq("(select "+b.C[0]+" (bvadd "+b.C[1]+" "+bvLit(uint64(i), 64)+"))", bvLit(uint64(a.Lit[i]), 8)))
		}
		return g.Fresh(SortBool, and(cs...))
	}
	// general case: an exact definition with one universally quantified direction
	if a.C[0] == b.C[0] && a.C[1] == b.C[1] && a.C[2] == b.C[2] {
		return "true"
	}
	if g.InQuant() {
		// under a quantifier: equal lengths and either the very same bytes (same array, same
		// offset) or the uninterpreted content equality
		fn := g.Fun("streq", []string{arrSort(SortBV64, SortBV8), SortBV64, SortBV64, arrSort(SortBV64, SortBV8), SortBV64, SortBV64}, SortBool)
		return "(and (= " + a.C[2] + " " + b.C[2] + ") (or (and (= " + a.C[0] + " " + b.C[0] + ") (= " + a.C[1] + " " + b.C[1] + ")) (" + fn + " " + strings.Join(a.C, " ") + " " + strings.Join(b.C, " ") + ")))"
	}
	e := g.Const("streq", SortBool)
	sk := g.Const("streq.k", SortBV64)
	{
		// the same comparison under a quantifier is the uninterpreted `streq` of the same
		// operands: tie the two, so that instantiating a quantified clause at this operand pair
		// meets the exact definition below
		fn := g.Fun("streq", []string{arrSort(SortBV64, SortBV8), SortBV64, SortBV64, arrSort(SortBV64, SortBV8), SortBV64, SortBV64}, SortBool)
		g.Assume(eq(e, "("+fn+" "+strings.Join(a.C, " ")+" "+strings.Join(b.C, " ")+")"))
		g.Assume(eq(e, "("+fn+" "+strings.Join(b.C, " ")+" "+strings.Join(a.C, " ")+")"))
	}
	same := "(= (select " + a.C[0] + " (bvadd " + a.C[1] + " i!)) (select " + b.C[0] + " (bvadd " + b.C[1] + " i!)))"
	g.Assume(implies(e, and(eq(a.C[2], b.C[2]), "(forall ((i! (_ BitVec 64))) (=> (bvult i! "+a.C[2]+") "+same+"))")))
	diff := "(not (= (select " + a.C[0] + " (bvadd " + a.C[1] + " " + sk + ")) (select " + b.C[0] + " (bvadd " + b.C[1] + " " + sk + "))))"
	g.Assume(implies(not(e), or(not(eq(a.C[2], b.C[2])), and("(bvult "+sk+" "+a.C[2]+")", diff))))
	return e
}

func (x *Exec) strConcat(a, b Val, rt types.Type) Val {
	g := x.g
	if a.HasLit && b.HasLit {
		return x.strLit(rt, a.Lit+b.Lit)
	}
	if g.InQuant() {
		unsup("string concatenation under a quantifier")
	}
	arr := g.Const("concat", arrSort(SortBV64, SortBV8))
	ln := g.Fresh(SortBV64, "(bvadd "+a.C[2]+" "+b.C[2]+")")
	g.Assume("(forall ((i! (_ BitVec 64))) (=> (bvult i! " + a.C[2] + ") (= (select " + arr + " i!) (select " + a.C[0] + " (bvadd " + a.C[1] + " i!)))))")
	if b.HasLit && len(b.Lit) <= 32 {
		// a short literal tail: its bytes one by one (no quantifier to instantiate)
		for i := 0; i < len(b.Lit); i++ {
			g.Assume(eq("(select "+arr+" (bvadd "+a.C[2]+" "+bvLit(uint64(i), 64)+"))", bvLit(uint64(b.Lit[i]), 8)))
		}
	} else {
		g.Assume("(forall ((i! (_ BitVec 64))) (=> (bvult i! " + b.C[2] + ") (= (select " + arr + " (bvadd " + a.C[2] + " i!)) (select " + b.C[0] + " (bvadd " + b.C[1] + " i!)))))")
	}
	return Val{T: rt, C: []string{arr, bvLit(0, 64), ln}}
}

func (f *frame) convert(n *node, in *ssa.Convert) Val {
	x := f.x
	g := x.g
	v := f.lookup(n, in.X)
	ft, tt := in.X.Type(), in.Type()
	fw, fs, fint := intInfo(ft)
	tw, tsigned, tint := intInfo(tt)
	fk, ffl := isFloat(ft)
	tk, tfl := isFloat(tt)
	switch {
	case fint && tint:
		if lv, _, ok := parseBV(v.C[0]); ok {
			if fs && fw < 64 && lv&(1<<uint(fw-1)) != 0 {
				lv |= ^uint64(0) << uint(fw)
			}
			return Val{T: tt, C: []string{bvLit(lv, tw)}}
		}
		switch {
		case tw == fw:
			return Val{T: tt, C: v.C}
		case tw < fw:
			return Val{T: tt, C: []string{g.Fresh(bvSort(tw), fmt.Sprintf("((_ extract %d 0) %s)", tw-1, v.C[0]))}}
		case fs:
			return Val{T: tt, C: []string{g.Fresh(bvSort(tw), fmt.Sprintf("((_ sign_extend %d) %s)", tw-fw, v.C[0]))}}
		default:
			return Val{T: tt, C: []string{g.Fresh(bvSort(tw), fmt.Sprintf("((_ zero_extend %d) %s)", tw-fw, v.C[0]))}}
		}
	case ffl && tfl:
		if fk == tk {
			return Val{T: tt, C: v.C}
		}
		e, s := 11, 53
		if tk == types.Float32 {
			e, s = 8, 24
		}
		return Val{T: tt, C: []string{g.Fresh(fpSort(tk), fmt.Sprintf("((_ to_fp %d %d) RNE %s)", e, s, v.C[0]))}}
	case fint && tfl:
		e, s := 11, 53
		if tk == types.Float32 {
			e, s = 8, 24
		}
		op := "to_fp_unsigned"
		if fs {
			op = "to_fp"
		}
		return Val{T: tt, C: []string{g.Fresh(fpSort(tk), fmt.Sprintf("((_ %s %d %d) RNE %s)", op, e, s, v.C[0]))}}
	case ffl && tint:
		op := "fp.to_ubv"
		if tsigned {
			op = "fp.to_sbv"
		}
		return Val{T: tt, C: []string{g.Fresh(bvSort(tw), fmt.Sprintf("((_ %s %d) RTZ %s)", op, tw, v.C[0]))}}
	case isString(tt) && isByteSlice(ft):
		// string(bytes): the contents of the backing array at this moment
		h := f.heapFor(n, v)
		arr := x.hget(h, x.sliceKey(v)+"[]", SortBV8, SortBV64)
		return Val{T: tt, C: []string{g.Fresh(arrSort(SortBV64, SortBV8), "(select "+arr+" "+v.C[0]+")"), v.C[1], v.C[2]}}
	case isByteSlice(tt) && isString(ft):
		ref := x.newRef()
		k := elemKey(types.Typ[types.Uint8]) + "[]"
		arr := x.hget(n.heap, k, SortBV8, SortBV64)
		x.hset(n.heap, k, SortBV8, SortBV64, g.Fresh(heapArraySort(SortBV8, SortBV64), "(store "+arr+" "+ref+" "+v.C[0]+")"), ref)
		for _, ep := range f.activeEpochs(n) {
			ep.written[k] = true
		}
		return Val{T: tt, C: []string{ref, v.C[1], v.C[2], v.C[2]}}
	case isString(tt) && fint:
		// string(rune): 1..4 unknown bytes
		r := x.havoc(tt, "runestr")
		g.Assume(and("(bvuge "+r.C[2]+" (_ bv1 64))", "(bvule "+r.C[2]+" (_ bv4 64))"))
		return r
	case isString(tt) && isString(ft):
		return Val{T: tt, C: v.C, Lit: v.Lit, HasLit: v.HasLit}
	}
	if pointerLike(ft) && pointerLike(tt) {
		nv := v
		nv.T = tt
		return nv
	}
	unsup("conversion %s -> %s", ft, tt)
	return Val{}
}

func isByteSlice(t types.Type) bool {
	s, ok := t.Underlying().(*types.Slice)
	if !ok {
		return false
	}
	b, ok := s.Elem().Underlying().(*types.Basic)
	return ok && b.Kind() == types.Uint8
}

// ---------------------------------------------------------------------------
// interfaces

func (f *frame) makeInterface(n *node, v Val, from types.Type, to types.Type) Val {
	x := f.x
	tag := x.typeTag(from)
	if pointerLike(from) {
		if v.Idx != "" {
			unsup("element pointer converted to interface")
		}
		r := Val{T: to, C: []string{tag, v.C[0]}, Dyn: from, Bind: []Val{v}}
		return r
	}
	// boxed payload: immutable cell
	ref := x.newRef()
	key := "box:" + typeKey(from)
	cs := x.comps(from)
	for i, c := range cs {
		arr := x.hget(n.heap, key+c.suffix, c.sort, "")
		x.hset(n.heap, key+c.suffix, c.sort, "", x.g.Fresh(heapArraySort(c.sort, ""), "(store "+arr+" "+ref+" "+v.C[i]+")"), ref)
		for _, ep := range f.activeEpochs(n) {
			ep.written[key+c.suffix] = true
		}
	}
	return Val{T: to, C: []string{tag, ref}, Dyn: from, Bind: []Val{v}}
}

func (f *frame) unbox(n *node, iv Val, t types.Type) Val {
	x := f.x
	if iv.Dyn != nil && types.Identical(iv.Dyn, t) && len(iv.Bind) == 1 {
		return iv.Bind[0]
	}
	if pointerLike(t) {
		// a pointer taken out of an old interface value is followed in the old state
		return Val{T: t, C: []string{iv.C[1]}, Old: iv.Old}
	}
	key := "box:" + typeKey(t)
	h := n.heap
	if iv.Old {
		h = f.heapFor(n, iv)
	}
	r := Val{T: t}
	for _, c := range x.comps(t) {
		arr := x.hget(h, key+c.suffix, c.sort, "")
		r.C = append(r.C, x.g.Fresh(c.sort, "(select "+arr+" "+iv.C[1]+")"))
	}
	if !x.g.InQuant() {
		x.assumeWellFormed(r, n.reach)
	}
	return r
}

func (f *frame) typeAssert(n *node, in *ssa.TypeAssert) bool {
	x := f.x
	g := x.g
	iv := f.lookup(n, in.X)
	at := in.AssertedType
	var ok string
	var res Val
	if _, isIface := at.Underlying().(*types.Interface); isIface {
		if iv.Dyn != nil {
			if types.Implements(iv.Dyn, at.Underlying().(*types.Interface)) {
				ok = "true"
			} else {
				ok = "false"
			}
		} else {
			fn := g.Fun("implements:"+typeKey(at), []string{SortTag}, SortBool)
			ok = g.Fresh(SortBool, and(not(eq(iv.C[0], bvLit(0, 32))), "("+fn+" "+iv.C[0]+")"))
		}
		res = iv
		res.T = at
	} else {
		if iv.Dyn != nil {
			if types.Identical(iv.Dyn, at) {
				ok = "true"
			} else {
				ok = "false"
			}
		} else {
			ok = g.Fresh(SortBool, eq(iv.C[0], x.typeTag(at)))
		}
		if ok == "false" {
			res = x.zero(at)
		} else {
			res = f.unbox(n, iv, at)
		}
	}
	if in.CommaOk {
		z := x.zero(at)
		var val Val
		if ok == "true" {
			val = res
		} else if ok == "false" {
			val = z
		} else if len(res.C) == len(z.C) {
			val = x.iteVal(ok, res, z)
		} else {
			val = res
		}
		n.env[in] = Val{T: in.Type(), Sub: []Val{val, {T: types.Typ[types.Bool], C: []string{ok}}}}
		return true
	}
	if x.inSpec() || f.spec {
		// In a specification a failed assertion must not end the path: an ended path would
		// make the clause vacuously true. The asserted value is unconstrained instead, so a
		// goal that depends on it cannot be proved and an assumed clause says nothing.
		if ok != "true" {
			hv := x.havoc(at, "typeassert")
			if ok == "false" || len(res.C) != len(hv.C) || len(res.Sub) != len(hv.Sub) {
				res = hv
			} else {
				res = x.iteVal(ok, res, hv)
			}
		}
		n.env[in] = res
		return true
	}
	x.safety(f, n, "typeassert", typeKey(at), ok, in.Pos())
	// after a failed assertion the path ends
	n.reach = g.Fresh(SortBool, and(n.reach, ok))
	n.env[in] = res
	return true
}

// big.Int literal helper (used by models)
func bigLit(v *big.Int) string {
	if v.Sign() < 0 {
		return "(- " + new(big.Int).Neg(v).String() + ")"
	}
	return v.String()
}

// parseBV recognises the literal form produced by bvLit.
func parseBV(t string) (uint64, int, bool) {
	if !strings.HasPrefix(t, "(_ bv") || !strings.HasSuffix(t, ")") {
		return 0, 0, false
	}
	var v uint64
	var w int
	if n, err := fmt.Sscanf(t, "(_ bv%d %d)", &v, &w); n != 2 || err != nil || w < 1 || w > 64 {
		return 0, 0, false
	}
	return v, w, true
}

// foldBV evaluates an integer operator on two literals with Go's semantics at width w.
func foldBV(op token.Token, xa, yb string, w int, signed bool, yt types.Type) (string, bool) {
	a, wa, ok := parseBV(xa)
	if !ok || wa != w {
		return "", false
	}
	b, _, ok := parseBV(yb)
	if !ok {
		return "", false
	}
	mask := ^uint64(0)
	if w < 64 {
		mask = (uint64(1) << uint(w)) - 1
	}
	sx := func(v uint64) int64 {
		if w < 64 && v&(1<<uint(w-1)) != 0 {
			v |= ^uint64(0) << uint(w)
		}
		return int64(v)
	}
	boolT := func(c bool) (string, bool) {
		if c {
			return "true", true
		}
		return "false", true
	}
	switch op {
	case token.ADD:
		return bvLit((a+b)&mask, w), true
	case token.SUB:
		return bvLit((a-b)&mask, w), true
	case token.MUL:
		return bvLit((a*b)&mask, w), true
	case token.AND:
		return bvLit(a&b, w), true
	case token.OR:
		return bvLit(a|b, w), true
	case token.XOR:
		return bvLit(a^b, w), true
	case token.AND_NOT:
		return bvLit(a&^b, w), true
	case token.SHL:
		if _, ys, _ := intInfo(yt); ys && int64(b) < 0 {
			return "", false
		}
		if b >= uint64(w) {
			return bvLit(0, w), true
		}
		return bvLit((a<<b)&mask, w), true
	case token.SHR:
		if _, ys, _ := intInfo(yt); ys && int64(b) < 0 {
			return "", false
		}
		if signed {
			v := sx(a)
			if b >= uint64(w) {
				b = uint64(w - 1)
			}
			return bvLit(uint64(v>>b)&mask, w), true
		}
		if b >= uint64(w) {
			return bvLit(0, w), true
		}
		return bvLit(a>>b, w), true
	case token.LSS:
		if signed {
			return boolT(sx(a) < sx(b))
		}
		return boolT(a < b)
	case token.LEQ:
		if signed {
			return boolT(sx(a) <= sx(b))
		}
		return boolT(a <= b)
	case token.GTR:
		if signed {
			return boolT(sx(a) > sx(b))
		}
		return boolT(a > b)
	case token.GEQ:
		if signed {
			return boolT(sx(a) >= sx(b))
		}
		return boolT(a >= b)
	}
	return "", false
}

// iteOfLiterals recognises a term defined as (ite c k1 k2) with literal branches.
func iteOfLiterals(g *Gen, t string) (string, uint64, uint64, bool) {
	d, ok := g.defOf[t]
	if !ok {
		d = t
	}
	if !strings.HasPrefix(d, "(ite ") {
		return "", 0, 0, false
	}
	parts := splitSexp(d[5 : len(d)-1])
	if len(parts) != 3 {
		return "", 0, 0, false
	}
	k1, _, ok1 := parseBV(parts[1])
	k2, _, ok2 := parseBV(parts[2])
	if !ok1 || !ok2 {
		return "", 0, 0, false
	}
	return parts[0], k1, k2, true
}

// splitSexp splits the top-level items of a space separated s-expression list.
func splitSexp(s string) []string {
	var out []string
	depth := 0
	start := -1
	inbar := false
	for i := 0; i < len(s); i++ {
		c := s[i]
		if c == '|' {
			inbar = !inbar
		}
		if inbar {
			if start < 0 {
				start = i
			}
			continue
		}
		switch {
		case c == '(':
			if depth == 0 && start < 0 {
				start = i
			}
			depth++
		case c == ')':
			depth--
		case c == ' ' && depth == 0:
			if start >= 0 {
				out = append(out, s[start:i])
				start = -1
			}
			continue
		default:
			if start < 0 {
				start = i
			}
		}
	}
	if start >= 0 {
		out = append(out, s[start:])
	}
	return out
}

// mulLit is x*k at width w with the trivial multipliers simplified.
func mulLit(x string, k uint64, w int) string {
	mask := ^uint64(0)
	if w < 64 {
		mask = (uint64(1) << uint(w)) - 1
	}
	switch k & mask {
	case 0:
		return bvLit(0, w)
	case 1:
		return x
	case mask:
		return "(bvneg " + x + ")"
	}
	return "(bvmul " + x + " " + bvLit(k, w) + ")"
}
