package vc

import (
	"fmt"
	"go/token"
	"go/types"
	"sort"
	"strings"

	"golang.org/x/tools/go/ssa"
)

// Shared-state frame conditions (property C18). Every function of package ion carries an
// implicit frame contract:
//
//	W1  it assigns no package-level variable of the repository and takes no such variable's
//	    address for anything but reading (package initialisers excepted);
//	W2  it writes to no object reached from a package-level variable, and - for the methods
//	    of the shared, immutable-after-construction types (sst, bogusSST, lst, basicCatalog)
//	    and every function that receives such an object - to no object reached from that
//	    receiver or parameter, unless it allocated the object itself.
//
// The obligations are discharged by a conservative flow analysis over go/ssa (no solver):
// a write is flagged whenever its target may derive from a shared source. Calls are
// followed through per-function summaries ("may write through parameter i") computed to
// a fixed point; calls through interfaces resolve to every implementation in the
// repository; library functions are assumed not to write through their arguments except
// for the listed mutators.
type FrameObligation struct {
	Kind   string // "" (shared-state frame) or "errprop"
	Name   string
	Func   string
	OK     bool
	Detail string
	Pos    token.Position
}

var sharedTypes = map[string]bool{"sst": true, "bogusSST": true, "lst": true, "basicCatalog": true}

// library functions that write through an argument (index of the written argument)
var libMutators = map[string][]int{
	"sort.Strings": {0}, "sort.Slice": {0}, "sort.SliceStable": {0}, "sort.Ints": {0}, "sort.Sort": {0}, "sort.Stable": {0},
	"(*sync.Map).Store": {0}, "(*sync.Map).LoadOrStore": {0}, "(*sync.Map).Delete": {0}, "(*sync.Map).LoadAndDelete": {0}, "(*sync.Map).Swap": {0},
	"(*sync.Map).CompareAndSwap": {0}, "(*sync.Map).CompareAndDelete": {0}, "(*sync.Map).Range": {},
	"(*sync.Mutex).Lock": {}, "(*sync.Mutex).Unlock": {}, "(*sync.RWMutex).Lock": {}, "(*sync.RWMutex).Unlock": {}, "(*sync.RWMutex).RLock": {}, "(*sync.RWMutex).RUnlock": {},
	"(*sync.Once).Do": {0}, "(*sync.Pool).Put": {0}, "(*sync.Pool).Get": {0},
	"sync/atomic.StoreInt32": {0}, "sync/atomic.StoreInt64": {0}, "sync/atomic.AddInt32": {0}, "sync/atomic.AddInt64": {0},
	"sync/atomic.StorePointer": {0}, "sync/atomic.CompareAndSwapInt32": {0}, "sync/atomic.CompareAndSwapInt64": {0},
	"(*sync/atomic.Value).Store": {0}, "(*sync/atomic.Value).Swap": {0}, "(*sync/atomic.Value).CompareAndSwap": {0},
	"(*math/big.Int).Set": {0}, "(*math/big.Int).SetBytes": {0}, "(*math/big.Int).Neg": {0}, "(*math/big.Int).Abs": {0}, "(*math/big.Int).Add": {0},
	"(*math/big.Int).Sub": {0}, "(*math/big.Int).Mul": {0}, "(*math/big.Int).Exp": {0}, "(*math/big.Int).SetInt64": {0}, "(*math/big.Int).SetUint64": {0},
	"(*math/big.Int).SetString": {0}, "(*math/big.Int).Quo": {0}, "(*math/big.Int).Rem": {0}, "(*math/big.Int).Div": {0}, "(*math/big.Int).Mod": {0},
	"(*math/big.Int).QuoRem": {0, 3}, "(*math/big.Int).DivMod": {0, 3}, "(*math/big.Int).Lsh": {0}, "(*math/big.Int).Rsh": {0},
	"(*strings.Builder).WriteString": {0}, "(*strings.Builder).WriteByte": {0}, "(*strings.Builder).WriteRune": {0}, "(*strings.Builder).Write": {0},
	"(*bytes.Buffer).Write": {0}, "(*bytes.Buffer).WriteString": {0}, "(*bytes.Buffer).WriteByte": {0}, "(*bytes.Buffer).WriteRune": {0}, "(*bytes.Buffer).Reset": {0},
	"io.ReadFull": {1}, "io.CopyN": {0}, "io.Copy": {0},
	"(encoding/binary.bigEndian).PutUint32": {1}, "(encoding/binary.bigEndian).PutUint64": {1}, "(encoding/binary.bigEndian).PutUint16": {1},
}

type frameAnalysis struct {
	w        *World
	funcs    []*ssa.Function
	writes   map[*ssa.Function]map[int]bool // may write through parameter i (receiver = 0)
	impls    map[string][]*ssa.Function     // method name -> repository implementations
	changed  bool
	libNotes map[string]bool
}

func frameFuncs(w *World) []*ssa.Function {
	var out []*ssa.Function
	seen := map[*ssa.Function]bool{}
	var add func(fn *ssa.Function)
	add = func(fn *ssa.Function) {
		if fn == nil || seen[fn] || len(fn.Blocks) == 0 {
			return
		}
		seen[fn] = true
		if !w.isSpecFunc(fn) {
			out = append(out, fn)
		}
		for _, a := range fn.AnonFuncs {
			add(a)
		}
	}
	for _, key := range []string{"ion"} {
		pkg := w.Pkgs[key]
		if pkg == nil {
			continue
		}
		for _, m := range pkg.Members {
			switch m := m.(type) {
			case *ssa.Function:
				add(m)
			case *ssa.Type:
				for _, t := range []types.Type{m.Type(), types.NewPointer(m.Type())} {
					ms := w.Prog.MethodSets.MethodSet(t)
					for i := 0; i < ms.Len(); i++ {
						fn := w.Prog.MethodValue(ms.At(i))
						if fn != nil && fn.Synthetic == "" {
							add(fn)
						}
					}
				}
			}
		}
	}
	sort.Slice(out, func(i, j int) bool { return out[i].String() < out[j].String() })
	return out
}

// isTestFile reports functions defined in _test.go files (not loaded, but be safe).
func (fa *frameAnalysis) pos(fn *ssa.Function, p token.Pos) token.Position {
	if !p.IsValid() {
		p = fn.Pos()
	}
	return fa.w.Prog.Fset.Position(p)
}

// derive computes, for one function, the set of SSA values that may hold (a pointer into,
// or a reference to) an object reachable from one of the sources.
func derive(fn *ssa.Function, sources map[ssa.Value]bool) map[ssa.Value]bool {
	taint := map[ssa.Value]bool{}
	for v := range sources {
		taint[v] = true
	}
	refLike := func(t types.Type) bool {
		switch t.Underlying().(type) {
		case *types.Pointer, *types.Slice, *types.Map, *types.Interface, *types.Signature, *types.Chan:
			return true
		case *types.Struct, *types.Array:
			return true // may contain references
		}
		return false
	}
	changed := true
	for changed {
		changed = false
		mark := func(v ssa.Value) {
			if !taint[v] {
				taint[v] = true
				changed = true
			}
		}
		for _, b := range fn.Blocks {
			for _, ins := range b.Instrs {
				v, isVal := ins.(ssa.Value)
				if !isVal || taint[v] {
					continue
				}
				switch in := ins.(type) {
				case *ssa.FieldAddr:
					if taint[in.X] {
						mark(v)
					}
				case *ssa.IndexAddr:
					if taint[in.X] {
						mark(v)
					}
				case *ssa.Field:
					if taint[in.X] && refLike(in.Type()) {
						mark(v)
					}
				case *ssa.Index:
					if taint[in.X] && refLike(in.Type()) {
						mark(v)
					}
				case *ssa.Slice:
					if taint[in.X] {
						mark(v)
					}
				case *ssa.UnOp:
					if in.Op == token.MUL && taint[in.X] && refLike(in.Type()) {
						mark(v) // a reference loaded from a shared object reaches shared structure
					}
				case *ssa.Phi:
					for _, e := range in.Edges {
						if taint[e] {
							mark(v)
						}
					}
				case *ssa.ChangeType:
					if taint[in.X] {
						mark(v)
					}
				case *ssa.Convert:
					if taint[in.X] && refLike(in.Type()) {
						mark(v)
					}
				case *ssa.ChangeInterface:
					if taint[in.X] {
						mark(v)
					}
				case *ssa.MakeInterface:
					if taint[in.X] && refLike(in.X.Type()) {
						mark(v)
					}
				case *ssa.TypeAssert:
					if taint[in.X] {
						mark(v)
					}
				case *ssa.Extract:
					if taint[in.Tuple] && refLike(in.Type()) {
						mark(v)
					}
				case *ssa.Lookup:
					if taint[in.X] && refLike(in.Type()) {
						mark(v)
					}
				case *ssa.Call:
					// append(s, ...) may return s's backing array
					if bi, ok := in.Call.Value.(*ssa.Builtin); ok && bi.Name() == "append" && taint[in.Call.Args[0]] {
						mark(v)
					}
				}
			}
		}
	}
	return taint
}

// writeSites lists the instructions of fn that may write through a tainted value.
func (fa *frameAnalysis) writeSites(fn *ssa.Function, taint map[ssa.Value]bool) []string {
	var out []string
	add := func(ins ssa.Instruction, what string) {
		out = append(out, fmt.Sprintf("%s at %s", what, fa.pos(fn, ins.Pos())))
	}
	for _, b := range fn.Blocks {
		for _, ins := range b.Instrs {
			switch in := ins.(type) {
			case *ssa.Store:
				if taint[in.Addr] {
					add(ins, "store through "+describe(in.Addr))
				}
			case *ssa.MapUpdate:
				if taint[in.Map] {
					add(ins, "map update of "+describe(in.Map))
				}
			case ssa.CallInstruction:
				c := in.Common()
				if bi, ok := c.Value.(*ssa.Builtin); ok {
					switch bi.Name() {
					case "delete":
						if taint[c.Args[0]] {
							add(ins, "delete from "+describe(c.Args[0]))
						}
					case "copy":
						if taint[c.Args[0]] {
							add(ins, "copy into "+describe(c.Args[0]))
						}
					case "append":
						// appending to a shared slice may write its spare capacity in place
						if taint[c.Args[0]] {
							add(ins, "append to "+describe(c.Args[0]))
						}
					}
					continue
				}
				var args []ssa.Value
				if c.IsInvoke() {
					args = append([]ssa.Value{c.Value}, c.Args...)
				} else {
					args = c.Args
				}
				var callees []*ssa.Function
				if callee := c.StaticCallee(); callee != nil {
					callees = []*ssa.Function{callee}
					if mc, ok := c.Value.(*ssa.MakeClosure); ok {
						// captured variables: a closure writing a captured shared pointer is found when
						// the closure itself is analysed with its free variables as sources
						_ = mc
					}
				} else if c.IsInvoke() {
					callees = fa.impls[c.Method.Name()]
				}
				for _, callee := range callees {
					if callee.Origin() != nil {
						callee = callee.Origin()
					}
					if inRepo(callee) && len(callee.Blocks) > 0 {
						for i, a := range args {
							if i < len(callee.Params) && taint[a] && fa.writes[callee][i] {
								add(ins, fmt.Sprintf("call of %s, which may write through its argument %d (%s)", callee.Name(), i, describe(a)))
							}
						}
						continue
					}
					full := fullName(callee)
					if idx, ok := libMutators[full]; ok {
						for _, i := range idx {
							if i < len(args) && taint[args[i]] {
								add(ins, fmt.Sprintf("call of %s, which writes through its argument %d (%s)", full, i, describe(args[i])))
							}
						}
					}
				}
			}
		}
	}
	return out
}

func (fa *frameAnalysis) summaries() {
	fa.writes = map[*ssa.Function]map[int]bool{}
	for _, fn := range fa.funcs {
		fa.writes[fn] = map[int]bool{}
	}
	for round := 0; round < 20; round++ {
		changed := false
		for _, fn := range fa.funcs {
			for i, p := range fn.Params {
				if fa.writes[fn][i] {
					continue
				}
				taint := derive(fn, map[ssa.Value]bool{p: true})
				if len(fa.writeSites(fn, taint)) > 0 {
					fa.writes[fn][i] = true
					changed = true
				}
			}
		}
		if !changed {
			break
		}
	}
}

func recvTypeName(fn *ssa.Function) string {
	if fn.Signature.Recv() == nil {
		return ""
	}
	t := fn.Signature.Recv().Type()
	if p, ok := t.(*types.Pointer); ok {
		t = p.Elem()
	}
	if n, ok := t.(*types.Named); ok {
		return n.Obj().Name()
	}
	return ""
}

func isSharedParamType(t types.Type) bool {
	if p, ok := t.(*types.Pointer); ok {
		t = p.Elem()
	}
	n, ok := t.(*types.Named)
	if !ok {
		return false
	}
	if sharedTypes[n.Obj().Name()] {
		return true
	}
	switch n.Obj().Name() {
	case "SharedSymbolTable", "SymbolTable", "Catalog":
		return n.Obj().Pkg() != nil && strings.HasPrefix(n.Obj().Pkg().Path(), repoPrefix)
	}
	return false
}

// FrameScan generates and decides the shared-state frame obligations of package ion.
func FrameScan(w *World) []FrameObligation {
	fa := &frameAnalysis{w: w, funcs: frameFuncs(w), impls: map[string][]*ssa.Function{}, libNotes: map[string]bool{}}
	for _, fn := range fa.funcs {
		if fn.Signature.Recv() != nil {
			fa.impls[fn.Name()] = append(fa.impls[fn.Name()], fn)
		}
	}
	fa.summaries()
	var out []FrameObligation
	for _, fn := range fa.funcs {
		name := funcID(fn)
		if fn.Parent() != nil {
			name = funcID(fn.Parent()) + "$" + fn.Name()
		}
		isInit := fn.Name() == "init" || strings.HasPrefix(fn.Name(), "init#") || (fn.Parent() != nil && fn.Parent().Name() == "init")
		// W1: package-level variables
		var w1 []string
		globals := map[ssa.Value]bool{}
		for _, b := range fn.Blocks {
			for _, ins := range b.Instrs {
				for _, op := range ins.Operands(nil) {
					g, ok := (*op).(*ssa.Global)
					if !ok || g.Pkg == nil || !strings.HasPrefix(g.Pkg.Pkg.Path(), repoPrefix) {
						continue
					}
					globals[g] = true
					if isInit {
						continue
					}
					switch in := ins.(type) {
					case *ssa.UnOp:
						if in.Op == token.MUL {
							continue // a read
						}
					case *ssa.FieldAddr, *ssa.IndexAddr:
						continue // derived address: writes through it are found below
					case *ssa.Store:
						if in.Addr == g {
							w1 = append(w1, fmt.Sprintf("assignment to package-level variable %s at %s", g.Name(), fa.pos(fn, ins.Pos())))
						}
						continue
					case *ssa.DebugRef:
						continue
					}
					if _, isCall := ins.(ssa.CallInstruction); isCall {
						// the address of a package-level variable handed to a callee (a method with pointer
						// receiver, sync.Map, ...): allowed only if the callee cannot write through it
						continue
					}
					w1 = append(w1, fmt.Sprintf("address of package-level variable %s escapes (%T) at %s", g.Name(), ins, fa.pos(fn, ins.Pos())))
				}
			}
		}
		if !isInit {
			taint := derive(fn, globals)
			w1 = append(w1, fa.writeSites(fn, taint)...)
			// the address of a global passed to any library call that may synchronise or store
			for _, b := range fn.Blocks {
				for _, ins := range b.Instrs {
					ci, ok := ins.(ssa.CallInstruction)
					if !ok {
						continue
					}
					c := ci.Common()
					callee := c.StaticCallee()
					if callee == nil || inRepo(callee) {
						continue
					}
					if _, known := libMutators[fullName(callee)]; known {
						continue // judged precisely above
					}
					for _, a := range c.Args {
						if g, ok := a.(*ssa.Global); ok && globals[g] {
							w1 = append(w1, fmt.Sprintf("address of package-level variable %s passed to %s at %s", g.Name(), fullName(callee), fa.pos(fn, ins.Pos())))
						}
					}
				}
			}
		}
		out = append(out, FrameObligation{Name: name + ":frame:package-level-state", Func: name, OK: len(w1) == 0, Detail: strings.Join(w1, "; "), Pos: fa.pos(fn, fn.Pos())})
		// W2: shared objects received as receiver or parameter
		var w2 []string
		sources := map[ssa.Value]bool{}
		for i, p := range fn.Params {
			if i == 0 && fn.Signature.Recv() != nil {
				if sharedTypes[recvTypeName(fn)] {
					sources[p] = true
				}
				continue
			}
			if isSharedParamType(p.Type()) {
				sources[p] = true
			} else if sl, ok := p.Type().Underlying().(*types.Slice); ok && isSharedParamType(sl.Elem()) {
				sources[p] = true
			}
		}
		for _, fv := range fn.FreeVars {
			if pt, ok := fv.Type().(*types.Pointer); ok && isSharedParamType(pt.Elem()) {
				sources[fv] = true
			}
		}
		if len(sources) > 0 {
			w2 = fa.writeSites(fn, derive(fn, sources))
			if len(w2) > 0 && fa.onlyCalledOnFresh(fn) {
				// constructor helper: an unexported method that every call site applies to an object
				// it has just allocated (fresh(recv) holds at all call sites)
				out = append(out, FrameObligation{Name: name + ":frame:shared-objects", Func: name, OK: true,
					Detail: "constructor helper: all call sites pass a freshly allocated receiver", Pos: fa.pos(fn, fn.Pos())})
				continue
			}
			out = append(out, FrameObligation{Name: name + ":frame:shared-objects", Func: name, OK: len(w2) == 0, Detail: strings.Join(w2, "; "), Pos: fa.pos(fn, fn.Pos())})
		}
	}
	return out
}

// onlyCalledOnFresh reports whether fn is an unexported method whose receiver, at every
// static call site in the repository, is an object allocated in the calling function, and
// which is not reachable through an interface.
func (fa *frameAnalysis) onlyCalledOnFresh(fn *ssa.Function) bool {
	if fn.Signature.Recv() == nil || token.IsExported(fn.Name()) {
		return false
	}
	sites := 0
	for _, caller := range fa.funcs {
		for _, b := range caller.Blocks {
			for _, ins := range b.Instrs {
				ci, ok := ins.(ssa.CallInstruction)
				if !ok {
					continue
				}
				c := ci.Common()
				if c.IsInvoke() {
					if c.Method.Name() == fn.Name() {
						return false
					}
					continue
				}
				if c.StaticCallee() != fn {
					// the method used as a value (bound method, closure) defeats the analysis
					for _, op := range ins.Operands(nil) {
						if *op == ssa.Value(fn) {
							return false
						}
					}
					continue
				}
				sites++
				if _, ok := c.Args[0].(*ssa.Alloc); !ok {
					return false
				}
			}
		}
	}
	return sites > 0
}
