package vc

import (
	"golang.org/x/tools/go/ssa"
)

// bigIntModel models math/big.Int methods over mathematical integers (see bigint models
// added with the decimal contracts).
func (f *frame) bigIntModel(n *node, callee *ssa.Function, full string, args []Val, in *ssa.Call) (Val, bool) {
	return Val{}, false
}
