package vc

import (
	"go/types"
	"strings"

	"golang.org/x/tools/go/ssa"
)

// BigIntTrusted documents the trusted model of math/big.Int for the evidence file.
const BigIntTrusted = "math/big.Int is modelled as a mathematical integer: NewInt/SetInt64/SetUint64/Set/Neg/Abs/Add/Sub/Mul/Sign/Cmp/IsInt64/Int64/IsUint64/Uint64 " +
	"are exact integer operations, BitLen is zero exactly for zero, SetBytes is non-negative and zero exactly when every byte is zero, String is an uninterpreted function of the value that is non-empty and starts with '-' exactly for negative values, every other method is an uninterpreted function " +
	"of the operands' values (same inputs, same result; the receiver of z.Op(x, y) is only the destination), results alias the receiver as in the library"

const bigIntKey = "big.Int.val"

// Bridges between machine integers and the mathematical carrier are uninterpreted
// functions with the few laws the contracts need (no int2bv/bv2nat terms, which the
// solvers bit-blast badly): ofI64 : BV64 -> Int is the signed value, ofU64 the unsigned
// one, toI64 : Int -> BV64 the low 64 bits.
func (x *Exec) bigBridges() (ofI64, ofU64, toI64 string) {
	g := x.g
	ofI64 = g.Fun("big:ofInt64", []string{SortBV64}, SortInt)
	ofU64 = g.Fun("big:ofUint64", []string{SortBV64}, SortInt)
	toI64 = g.Fun("big:low64", []string{SortInt}, SortBV64)
	g.Assume("(forall ((v (_ BitVec 64))) (! (and (<= (- 9223372036854775808) (" + ofI64 + " v)) (<= (" + ofI64 + " v) 9223372036854775807) " +
		"(= (" + toI64 + " (" + ofI64 + " v)) v) (= (< (" + ofI64 + " v) 0) (bvslt v (_ bv0 64))) (= (= (" + ofI64 + " v) 0) (= v (_ bv0 64)))) :pattern ((" + ofI64 + " v))))")
	g.Assume("(forall ((v (_ BitVec 64))) (! (and (<= 0 (" + ofU64 + " v)) (<= (" + ofU64 + " v) 18446744073709551615) " +
		"(= (" + toI64 + " (" + ofU64 + " v)) v) (= (= (" + ofU64 + " v) 0) (= v (_ bv0 64))) " +
		"(= (<= (" + ofU64 + " v) 9223372036854775807) (bvsge v (_ bv0 64)))) :pattern ((" + ofU64 + " v))))")
	return
}

func (x *Exec) sbvToInt(t string) string {
	of, _, _ := x.bigBridges()
	return "(" + of + " " + t + ")"
}

func (f *frame) bigStore(n *node, ref, v string) {
	x := f.x
	arr := x.hget(n.heap, bigIntKey, SortInt, "")
	x.hset(n.heap, bigIntKey, SortInt, "", x.g.Fresh(heapArraySort(SortInt, ""), "(store "+arr+" "+ref+" "+v+")"), ref)
	for _, ep := range f.activeEpochs(n) {
		ep.written[bigIntKey] = true
	}
}

// bigString is the decimal text of a big.Int as an uninterpreted function of its value, with
// the laws the contracts use: it is never empty, and it starts with '-' exactly when the
// value is negative (then at least one digit follows).
func (x *Exec) bigString(v string) Val {
	g := x.g
	fa := g.Fun("big:String.bytes", []string{SortInt}, arrSort(SortBV64, SortBV8))
	fl := g.Fun("big:String.len", []string{SortInt}, SortBV64)
	arr := g.Fresh(arrSort(SortBV64, SortBV8), "("+fa+" "+v+")")
	ln := g.Fresh(SortBV64, "("+fl+" "+v+")")
	g.Assume(and("(bvuge "+ln+" "+bvLit(1, 64)+")", "(bvult "+ln+" "+bvLit(1<<40, 64)+")",
		eq("(< "+v+" 0)", eq("(select "+arr+" "+bvLit(0, 64)+")", bvLit('-', 8))),
		implies("(< "+v+" 0)", "(bvuge "+ln+" "+bvLit(2, 64)+")")))
	return Val{T: types.Typ[types.String], C: []string{arr, bvLit(0, 64), ln}}
}

// bigIntModel models math/big.Int methods (see BigIntTrusted).
func (f *frame) bigIntModel(n *node, callee *ssa.Function, full string, args []Val, in *ssa.Call) (Val, bool) {
	x := f.x
	g := x.g
	rt := resultType(callee.Signature)
	load := func(p Val) string {
		arr := x.hget(f.heapFor(n, p), bigIntKey, SortInt, "")
		return g.Fresh(SortInt, "(select "+arr+" "+p.C[0]+")")
	}
	store := func(p Val, v string) {
		arr := x.hget(n.heap, bigIntKey, SortInt, "")
		x.hset(n.heap, bigIntKey, SortInt, "", g.Fresh(heapArraySort(SortInt, ""), "(store "+arr+" "+p.C[0]+" "+v+")"), p.C[0])
		for _, ep := range f.activeEpochs(n) {
			ep.written[bigIntKey] = true
		}
	}
	if full == "math/big.NewInt" {
		x.note("trusted model: " + BigIntTrusted)
		ref := x.newRef()
		p := Val{T: rt, C: []string{ref}}
		store(p, g.Fresh(SortInt, x.sbvToInt(args[0].C[0])))
		return p, true
	}
	if !strings.HasPrefix(full, "(*math/big.Int).") {
		return Val{}, false
	}
	x.note("trusted model: " + BigIntTrusted)
	name := strings.TrimPrefix(full, "(*math/big.Int).")
	recv := args[0]
	if in != nil {
		x.safety(f, n, "nil", "big.Int."+name, not(eq(recv.C[0], NilRef)), in.Pos())
	}
	isBig := func(v Val) bool {
		p, ok := v.T.Underlying().(*types.Pointer)
		if !ok {
			return false
		}
		name, ok := isOpaque(p.Elem())
		return ok && name == "math/big.Int"
	}
	lo, hi := "(- 9223372036854775808)", "9223372036854775807"
	b := func(t string) Val { return Val{T: rt, C: []string{g.Fresh(SortBool, t)}} }
	switch name {
	case "IsInt64":
		v := load(recv)
		return b("(and (<= " + lo + " " + v + ") (<= " + v + " " + hi + "))"), true
	case "IsUint64":
		v := load(recv)
		return b("(and (<= 0 " + v + ") (<= " + v + " 18446744073709551615))"), true
	case "Int64", "Uint64":
		v := load(recv)
		_, _, to := x.bigBridges()
		return Val{T: rt, C: []string{g.Fresh(SortBV64, "("+to+" "+v+")")}}, true
	case "BitLen":
		// the bit length is zero exactly for zero
		v := load(recv)
		fn := g.Fun("big:BitLen", []string{SortInt}, SortBV64)
		r := g.Fresh(SortBV64, "("+fn+" "+v+")")
		g.Assume(and(eq(eq(r, bvLit(0, 64)), "(= "+v+" 0)"), "(bvult "+r+" "+bvLit(1<<40, 64)+")"))
		return Val{T: rt, C: []string{r}}, true
	case "Bytes":
		// the big-endian magnitude in a fresh slice: ceil(BitLen/8) bytes, no leading zero,
		// and the top bit of the first byte is set exactly when BitLen is a multiple of 8
		if !g.InQuant() {
			v := load(recv)
			bl := g.Fun("big:BitLen", []string{SortInt}, SortBV64)
			r := g.Fresh(SortBV64, "("+bl+" "+v+")")
			g.Assume(and(eq(eq(r, bvLit(0, 64)), "(= "+v+" 0)"), "(bvult "+r+" "+bvLit(1<<40, 64)+")"))
			ln := g.Fresh(SortBV64, "(bvudiv (bvadd "+r+" "+bvLit(7, 64)+") "+bvLit(8, 64)+")")
			ref := x.newRef()
			res := Val{T: rt, C: []string{ref, bvLit(0, 64), ln, ln}}
			bt := types.Typ[types.Uint8]
			f.initElems(n, ref, x.sliceKey(res), bt)
			fa := g.Fun("big:Bytes", []string{SortInt}, arrSort(SortBV64, SortBV8))
			contents := g.Fresh(arrSort(SortBV64, SortBV8), "("+fa+" "+v+")")
			k := x.sliceKey(res) + "[]"
			arr := x.hget(n.heap, k, SortBV8, SortBV64)
			x.hset(n.heap, k, SortBV8, SortBV64, g.Fresh(heapArraySort(SortBV8, SortBV64), "(store "+arr+" "+ref+" "+contents+")"), ref)
			first := "(select " + contents + " " + bvLit(0, 64) + ")"
			g.Assume(implies("(not (= "+v+" 0))", and(not(eq(first, "#x00")),
				eq(not(eq("(bvand "+first+" #x80)", "#x00")), eq("(bvurem "+r+" "+bvLit(8, 64)+")", bvLit(0, 64))))))
			return Val{T: rt, C: []string{ref, bvLit(0, 64), ln, ln}}, true
		}
	case "SetBytes":
		// the big-endian value of the bytes: non-negative, and zero exactly when every byte is
		if len(args) == 2 && isByteSlice(args[1].T) && !g.InQuant() {
			a := args[1]
			arr := x.hget(f.heapFor(n, a), x.sliceKey(a)+"[]", SortBV8, SortBV64)
			contents := g.Fresh(arrSort(SortBV64, SortBV8), "(select "+arr+" "+a.C[0]+")")
			fn := g.Fun("big:SetBytes", []string{arrSort(SortBV64, SortBV8), SortBV64, SortBV64}, SortInt)
			v := g.Fresh(SortInt, "("+fn+" "+contents+" "+a.C[1]+" "+a.C[2]+")")
			sk := g.Const("setbytes.k", SortBV64)
			allZero := "(forall ((i! (_ BitVec 64))) (=> (bvult i! " + a.C[2] + ") (= (select " + contents + " (bvadd " + a.C[1] + " i!)) #x00)))"
			g.Assume(and("(>= "+v+" 0)", implies("(= "+v+" 0)", allZero),
				implies("(not (= "+v+" 0))", and("(bvult "+sk+" "+a.C[2]+")", not(eq("(select "+contents+" (bvadd "+a.C[1]+" "+sk+"))", "#x00"))))))
			store(recv, v)
			return Val{T: rt, C: recv.C}, true
		}
	case "String":
		return x.bigString(load(recv)), true
	case "Sign":
		v := load(recv)
		return Val{T: rt, C: []string{g.Fresh(SortBV64, ite("(< "+v+" 0)", bvLit(^uint64(0), 64), ite("(= "+v+" 0)", bvLit(0, 64), bvLit(1, 64))))}}, true
	case "Cmp":
		a, c := load(recv), load(args[1])
		return Val{T: rt, C: []string{g.Fresh(SortBV64, ite("(< "+a+" "+c+")", bvLit(^uint64(0), 64), ite("(= "+a+" "+c+")", bvLit(0, 64), bvLit(1, 64))))}}, true
	case "SetInt64":
		store(recv, g.Fresh(SortInt, x.sbvToInt(args[1].C[0])))
		return Val{T: rt, C: recv.C}, true
	case "SetUint64":
		_, ofu, _ := x.bigBridges()
		store(recv, g.Fresh(SortInt, "("+ofu+" "+args[1].C[0]+")"))
		return Val{T: rt, C: recv.C}, true
	case "Set":
		store(recv, load(args[1]))
		return Val{T: rt, C: recv.C}, true
	case "Neg":
		store(recv, g.Fresh(SortInt, "(- "+load(args[1])+")"))
		return Val{T: rt, C: recv.C}, true
	case "Abs":
		store(recv, g.Fresh(SortInt, "(abs "+load(args[1])+")"))
		return Val{T: rt, C: recv.C}, true
	case "Add", "Sub", "Mul":
		op := map[string]string{"Add": "+", "Sub": "-", "Mul": "*"}[name]
		store(recv, g.Fresh(SortInt, "("+op+" "+load(args[1])+" "+load(args[2])+")"))
		return Val{T: rt, C: recv.C}, true
	}
	// everything else: an uninterpreted function of the operand values
	var terms, sorts []string
	sig := callee.Signature
	returnsRecv := sig.Results().Len() >= 1 && isBig(Val{T: sig.Results().At(0).Type()})
	for i, a := range args {
		if i == 0 && returnsRecv {
			continue // z.Op(x, y): the receiver is the destination only
		}
		switch {
		case isBig(a) && isNil(a.C[0]):
			terms = append(terms, "0") // a nil operand (for example Exp's modulus)
			sorts = append(sorts, SortInt)
		case isBig(a):
			terms = append(terms, load(a))
			sorts = append(sorts, SortInt)
		case isByteSlice(a.T):
			arr := x.hget(f.heapFor(n, a), x.sliceKey(a)+"[]", SortBV8, SortBV64)
			terms = append(terms, g.Fresh(arrSort(SortBV64, SortBV8), "(select "+arr+" "+a.C[0]+")"), a.C[1], a.C[2])
			sorts = append(sorts, arrSort(SortBV64, SortBV8), SortBV64, SortBV64)
		default:
			cs := x.comps(a.T)
			if len(cs) == len(a.C) {
				for k, c := range cs {
					if _, ok := a.T.Underlying().(*types.Basic); ok {
						terms = append(terms, a.C[k])
						sorts = append(sorts, c.sort)
					}
				}
			}
		}
	}
	if returnsRecv {
		// a mutator: the receiver takes the function's value and is returned
		fn := g.Fun("big:"+name, sorts, SortInt)
		rv := g.Fresh(SortInt, "("+fn+" "+strings.Join(terms, " ")+")")
		if name == "Exp" && len(terms) == 3 {
			// x^0 = 1, and a power of a positive base is positive
			g.Assume(and(implies(and("(= "+terms[1]+" 0)", "(= "+terms[2]+" 0)"), "(= "+rv+" 1)"), implies(and("(> "+terms[0]+" 0)", "(= "+terms[2]+" 0)"), "(> "+rv+" 0)")))
		}
		store(recv, rv)
		if sig.Results().Len() == 1 {
			return Val{T: rt, C: recv.C}, true
		}
		res := Val{T: rt}
		res.Sub = append(res.Sub, Val{T: sig.Results().At(0).Type(), C: recv.C})
		for i := 1; i < sig.Results().Len(); i++ {
			res.Sub = append(res.Sub, x.havoc(sig.Results().At(i).Type(), "big."+name))
		}
		return res, true
	}
	// an observer with a scalar result
	if sig.Results().Len() == 1 {
		rc := x.comps(rt)
		if len(rc) == 1 {
			if _, ok := rt.Underlying().(*types.Basic); ok && !isString(rt) {
				fn := g.Fun("big:"+name, sorts, rc[0].sort)
				return Val{T: rt, C: []string{g.Fresh(rc[0].sort, "("+fn+" "+strings.Join(terms, " ")+")")}}, true
			}
		}
	}
	return x.havocResult(rt, "big."+name), true
}
