package vc

import (
	"fmt"
	"go/types"
	"os"
	"runtime/debug"
	"strings"

	"golang.org/x/tools/go/ssa"
)

// Val is a symbolic Go value: its components flattened to SMT terms in a canonical
// order given by comps(T). Pointers and slices additionally carry the static heap key
// of what they point to.
type Val struct {
	T   types.Type
	C   []string
	Key string // pointer: heap key prefix of the pointee; slice: element heap key ("" = default for the type)
	Idx string // pointer into an array / slice element: index term
	Old bool   // contract "old" view: loads go to the pre-state heap
	Sub []Val  // tuples
	// closures and function values
	Fn   *ssa.Function
	Bind []Val
	// interface values whose dynamic type is statically known
	Dyn types.Type
	// slices backed by a fixed-size local array: static capacity bound (0 = unknown)
	StaticCap int
	// string literal (for cheap comparisons)
	Lit    string
	HasLit bool
}

type comp struct {
	suffix string
	sort   string
}

type unsupported struct{ msg string }

func (u unsupported) Error() string { return u.msg }

func unsup(format string, args ...interface{}) {
	if os.Getenv("IONVC_TRACE") != "" {
		debug.PrintStack()
	}
	panic(unsupported{fmt.Sprintf(format, args...)})
}

func qualifier(p *types.Package) string { return p.Name() }

func typeKey(t types.Type) string {
	return types.TypeString(t, qualifier)
}

// isOpaque reports whether t is a struct type defined outside the verified module
// (math/big.Int, time.Time, reflect.Value ...): modelled as a single abstract component.
func isOpaque(t types.Type) (string, bool) {
	n, ok := t.(*types.Named)
	if !ok {
		return "", false
	}
	if _, ok := n.Underlying().(*types.Struct); !ok {
		return "", false
	}
	p := n.Obj().Pkg()
	if p == nil {
		return "", false
	}
	if strings.HasPrefix(p.Path(), "github.com/amzn/ion-go") {
		return "", false
	}
	return p.Path() + "." + n.Obj().Name(), true
}

func opaqueSort(name string) string {
	if name == "math/big.Int" {
		return SortInt
	}
	return qname("Opaque:" + name)
}

func fpSort(k types.BasicKind) string {
	if k == types.Float32 {
		return "(_ FloatingPoint 8 24)"
	}
	return "(_ FloatingPoint 11 53)"
}

func intInfo(t types.Type) (w int, signed bool, ok bool) {
	b, isb := t.Underlying().(*types.Basic)
	if !isb {
		return 0, false, false
	}
	switch b.Kind() {
	case types.Int8:
		return 8, true, true
	case types.Uint8:
		return 8, false, true
	case types.Int16:
		return 16, true, true
	case types.Uint16:
		return 16, false, true
	case types.Int32:
		return 32, true, true
	case types.Uint32:
		return 32, false, true
	case types.Int, types.Int64, types.UntypedInt, types.UntypedRune:
		return 64, true, true
	case types.Uint, types.Uint64, types.Uintptr:
		return 64, false, true
	}
	return 0, false, false
}

func isFloat(t types.Type) (types.BasicKind, bool) {
	b, ok := t.Underlying().(*types.Basic)
	if !ok {
		return 0, false
	}
	switch b.Kind() {
	case types.Float32:
		return types.Float32, true
	case types.Float64, types.UntypedFloat:
		return types.Float64, true
	}
	return 0, false
}

func isString(t types.Type) bool {
	b, ok := t.Underlying().(*types.Basic)
	return ok && b.Info()&types.IsString != 0
}

func isBool(t types.Type) bool {
	b, ok := t.Underlying().(*types.Basic)
	return ok && b.Info()&types.IsBoolean != 0
}

// comps returns the flattened components of a value of type t.
func (x *Exec) comps(t types.Type) []comp {
	key := t
	if c, ok := x.compCache[key]; ok {
		return c
	}
	c := x.comps0(t)
	x.compCache[key] = c
	return c
}

func (x *Exec) comps0(t types.Type) []comp {
	if name, ok := isOpaque(t); ok {
		s := opaqueSort(name)
		if s != SortInt {
			x.g.Raw("sort:"+s, "(declare-sort "+s+" 0)")
		}
		return []comp{{".val", s}}
	}
	switch u := t.Underlying().(type) {
	case *types.Basic:
		if w, _, ok := intInfo(t); ok {
			return []comp{{"", bvSort(w)}}
		}
		if k, ok := isFloat(t); ok {
			return []comp{{"", fpSort(k)}}
		}
		switch {
		case u.Info()&types.IsBoolean != 0:
			return []comp{{"", SortBool}}
		case u.Info()&types.IsString != 0:
			return []comp{{".arr", arrSort(SortBV64, SortBV8)}, {".off", SortBV64}, {".len", SortBV64}}
		case u.Kind() == types.UnsafePointer, u.Kind() == types.UntypedNil:
			return []comp{{"", SortRef}}
		}
	case *types.Pointer, *types.Map, *types.Chan, *types.Signature:
		return []comp{{"", SortRef}}
	case *types.Slice:
		return []comp{{".ref", SortRef}, {".off", SortBV64}, {".len", SortBV64}, {".cap", SortBV64}}
	case *types.Interface:
		return []comp{{".tag", SortTag}, {".ref", SortRef}}
	case *types.Struct:
		var out []comp
		for i := 0; i < u.NumFields(); i++ {
			f := u.Field(i)
			for _, c := range x.comps(f.Type()) {
				out = append(out, comp{"." + f.Name() + c.suffix, c.sort})
			}
		}
		return out
	case *types.Array:
		ec := x.comps(u.Elem())
		var out []comp
		for _, c := range ec {
			out = append(out, comp{c.suffix + "[]", arrSort(SortBV64, c.sort)})
		}
		return out
	case *types.Tuple:
		return nil
	}
	unsup("type %s not modelled", t)
	return nil
}

func zeroOfSort(x *Exec, sort string) string {
	switch {
	case sort == SortBool:
		return "false"
	case sort == SortInt:
		return "0"
	case strings.HasPrefix(sort, "(_ BitVec "):
		var w int
		fmt.Sscanf(sort, "(_ BitVec %d)", &w)
		return bvLit(0, w)
	case strings.HasPrefix(sort, "(_ FloatingPoint "):
		var e, s int
		fmt.Sscanf(sort, "(_ FloatingPoint %d %d)", &e, &s)
		return fmt.Sprintf("(_ +zero %d %d)", e, s)
	case strings.HasPrefix(sort, "(Array "):
		// (Array I E): constant array of the element zero
		idx, el := splitArraySort(sort)
		_ = idx
		return fmt.Sprintf("((as const %s) %s)", sort, zeroOfSort(x, el))
	}
	// uninterpreted sort: a distinguished zero constant
	return x.g.Named("zero:"+sort, sort)
}

func splitArraySort(s string) (string, string) {
	// s = "(Array A B)"
	inner := s[len("(Array ") : len(s)-1]
	depth := 0
	inbar := false
	for i, c := range inner {
		if c == '|' {
			inbar = !inbar
		}
		if inbar {
			continue
		}
		if c == '(' {
			depth++
		} else if c == ')' {
			depth--
		} else if c == ' ' && depth == 0 {
			return inner[:i], inner[i+1:]
		}
	}
	panic("bad array sort " + s)
}

func (x *Exec) zero(t types.Type) Val {
	v := Val{T: t}
	if tt, ok := t.(*types.Tuple); ok {
		for i := 0; i < tt.Len(); i++ {
			v.Sub = append(v.Sub, x.zero(tt.At(i).Type()))
		}
		return v
	}
	for _, c := range x.comps(t) {
		v.C = append(v.C, zeroOfSort(x, c.sort))
	}
	if isString(t) {
		v.Lit, v.HasLit = "", true
	}
	return v
}

// havoc returns a value of type t made of fresh unconstrained constants.
func (x *Exec) havoc(t types.Type, hint string) Val {
	v := Val{T: t}
	if tt, ok := t.(*types.Tuple); ok {
		for i := 0; i < tt.Len(); i++ {
			v.Sub = append(v.Sub, x.havoc(tt.At(i).Type(), fmt.Sprintf("%s.%d", hint, i)))
		}
		return v
	}
	for _, c := range x.comps(t) {
		v.C = append(v.C, x.g.Const(hint+c.suffix, c.sort))
	}
	x.assumeWellFormed(v, "true")
	return v
}

// assumeWellFormed adds the Go runtime's type invariants for a symbolic value that
// comes from outside (parameters, havocked results, values read from the pre-state).
func (x *Exec) assumeWellFormed(v Val, guard string) {
	if len(v.Sub) > 0 {
		for _, s := range v.Sub {
			x.assumeWellFormed(s, guard)
		}
		return
	}
	if v.T == nil {
		return
	}
	x.wfComps(v.T, v.C, guard)
}

func (x *Exec) wfComps(t types.Type, c []string, guard string) {
	if _, ok := isOpaque(t); ok {
		return
	}
	lim := refLit(x.allocLimit())
	switch u := t.Underlying().(type) {
	case *types.Basic:
		if u.Info()&types.IsString != 0 {
			x.g.Assume(implies(guard, and("(bvult "+c[2]+" #x4000000000000000)", "(bvult "+c[1]+" #x4000000000000000)")))
		}
	case *types.Pointer, *types.Map, *types.Chan, *types.Signature:
		x.g.Assume(implies(guard, "(bvult "+c[0]+" "+lim+")"))
	case *types.Slice:
		x.g.Assume(implies(guard, and(
			"(bvult "+c[0]+" "+lim+")",
			"(bvule "+c[2]+" "+c[3]+")",
			"(bvult "+c[3]+" #x4000000000000000)",
			"(bvult "+c[1]+" #x4000000000000000)",
			implies(eq(c[0], NilRef), eq(c[3], bvLit(0, 64))))))
	case *types.Interface:
		x.g.Assume(implies(guard, and("(bvult "+c[1]+" "+lim+")", implies(eq(c[0], bvLit(0, 32)), eq(c[1], NilRef)))))
	case *types.Struct:
		off := 0
		for i := 0; i < u.NumFields(); i++ {
			n := len(x.comps(u.Field(i).Type()))
			x.wfComps(u.Field(i).Type(), c[off:off+n], guard)
			off += n
		}
	}
}

func (x *Exec) iteVal(c string, a, b Val) Val {
	if len(a.Sub) > 0 || len(b.Sub) > 0 {
		r := Val{T: a.T}
		for i := range a.Sub {
			r.Sub = append(r.Sub, x.iteVal(c, a.Sub[i], b.Sub[i]))
		}
		return r
	}
	if len(a.C) != len(b.C) {
		unsup("merge of values with different shapes (%v / %v)", a.T, b.T)
	}
	r := Val{T: a.T, Key: a.Key, Old: a.Old}
	refVal := false
	if a.T != nil {
		switch a.T.Underlying().(type) {
		case *types.Pointer, *types.Slice, *types.Map, *types.Interface, *types.Struct, *types.Array:
			refVal = true
		}
	}
	if refVal && (a.Key != b.Key || a.Old != b.Old) {
		// nil constants carry no region of their own
		switch {
		case isNilConst(a):
			r.Key, r.Old = b.Key, b.Old
		case isNilConst(b):
		default:
			unsup("merge of pointers into different heap regions (%s / %s)", a.Key, b.Key)
		}
	}
	if !refVal {
		r.Key, r.Old = "", false
	}
	// a nil pointer merged with an element pointer: nil carries index 0 (it is never followed)
	if a.Idx == "" && b.Idx != "" && isNilConst(a) {
		a.Idx = bvLit(0, 64)
	}
	if b.Idx == "" && a.Idx != "" && isNilConst(b) {
		b.Idx = bvLit(0, 64)
	}
	if (a.Idx == "") != (b.Idx == "") {
		unsup("merge of element and object pointers")
	}
	if a.Idx != "" {
		r.Idx = x.g.Fresh(SortBV64, ite(c, a.Idx, b.Idx))
	}
	cs := x.compsOf(a)
	for i := range a.C {
		r.C = append(r.C, x.g.Fresh(cs[i].sort, ite(c, a.C[i], b.C[i])))
	}
	if a.Fn != nil && a.Fn == b.Fn && len(a.Bind) == len(b.Bind) {
		r.Fn = a.Fn
		for i := range a.Bind {
			r.Bind = append(r.Bind, x.iteVal(c, a.Bind[i], b.Bind[i]))
		}
	}
	if a.Dyn != nil && b.Dyn != nil && types.Identical(a.Dyn, b.Dyn) {
		r.Dyn = a.Dyn
	}
	if a.StaticCap > 0 && b.StaticCap > 0 {
		r.StaticCap = a.StaticCap
		if b.StaticCap > r.StaticCap {
			r.StaticCap = b.StaticCap
		}
	}
	if a.HasLit && b.HasLit && a.Lit == b.Lit {
		r.Lit, r.HasLit = a.Lit, true
	}
	return r
}

func (x *Exec) compsOf(v Val) []comp {
	return x.comps(v.T)
}

func sameVal(a, b Val) bool {
	if len(a.Sub) != len(b.Sub) || len(a.C) != len(b.C) || a.Key != b.Key || a.Idx != b.Idx || a.Old != b.Old || a.Fn != b.Fn {
		return false
	}
	for i := range a.C {
		if a.C[i] != b.C[i] {
			return false
		}
	}
	for i := range a.Sub {
		if !sameVal(a.Sub[i], b.Sub[i]) {
			return false
		}
	}
	for i := range a.Bind {
		if i >= len(b.Bind) || !sameVal(a.Bind[i], b.Bind[i]) {
			return false
		}
	}
	return true
}

// ptrKey returns the heap key prefix for the pointee of a pointer value.
func (x *Exec) ptrKey(v Val) string {
	if v.Key != "" {
		return v.Key
	}
	pt, ok := v.T.Underlying().(*types.Pointer)
	if !ok {
		unsup("not a pointer: %s", v.T)
	}
	return pointeeKey(pt.Elem())
}

func pointeeKey(elem types.Type) string {
	if _, ok := isOpaque(elem); ok {
		return typeKey(elem)
	}
	switch u := elem.Underlying().(type) {
	case *types.Struct:
		if _, named := elem.(*types.Named); named {
			return typeKey(elem)
		}
		return "anon:" + typeKey(elem)
	case *types.Array:
		return elemKey(u.Elem())
	}
	return "cell:" + typeKey(elem)
}

func elemKey(elem types.Type) string { return "[]" + typeKey(elem) }

func (x *Exec) sliceKey(v Val) string {
	if v.Key != "" {
		return v.Key
	}
	st, ok := v.T.Underlying().(*types.Slice)
	if !ok {
		unsup("not a slice: %s", v.T)
	}
	return elemKey(st.Elem())
}

// type tags for interface values
func (x *Exec) typeTag(t types.Type) string {
	k := typeKey(t)
	if id, ok := x.tags[k]; ok {
		return bvLit(uint64(id), 32)
	}
	id := uint32(len(x.tags) + 16)
	x.tags[k] = id
	x.tagTypes[id] = t
	return bvLit(uint64(id), 32)
}

func pointerLike(t types.Type) bool {
	switch t.Underlying().(type) {
	case *types.Pointer, *types.Map, *types.Chan, *types.Signature:
		return true
	case *types.Basic:
		return t.Underlying().(*types.Basic).Kind() == types.UnsafePointer
	}
	return false
}
