package vc

import (
	"bytes"
	"fmt"
	"go/ast"
	"go/parser"
	"go/printer"
	"go/token"
	"os"
	"path/filepath"
	"regexp"
	"sort"
	"strconv"
	"strings"
)

// Clause is one requires/ensures/invariant/lemma expression. It is compiled to a
// pure boolean Go function (GoFunc) placed in an overlay file of the package, so
// that the Go type checker checks it and the SSA translator evaluates it.
type Clause struct {
	Kind   string   // requires, ensures, invariant, lemma
	Props  []string // property ids served
	Text   string   // source text of the clause
	GoFunc string   // name of the generated clause function
	Loop   int      // invariant: loop ordinal
	Binder []Param  // invariant: named locals; lemma: universally quantified variables
	Line   int
	N      int // ordinal among clauses of its kind
	// proof hint `cases k lo hi` on an ensures clause of the form `forall k T :: body`:
	// the obligation is proved by the exhaustive case split k==lo, ..., k==hi-1, k outside [lo,hi)
	CaseVar        string
	CaseLo, CaseHi int
	// atcall: the callee (FuncID) before whose calls the assertion is checked; its
	// receiver and arguments are available as a0, a1, ...
	Callee      string
	Optional    bool     // atcall-if-any: the clause may match no call
	Site        int      // atcall: call-site ordinal (source order) the clause applies to, -1 for all
	Unchecked   bool     // an invariant that is assumed only (invariant-assumed)
	CalleeTypes []string // explicit receiver and parameter types (library callees)
}

type Param struct{ Name, Type string }

// Contract is the contract block of one function (or interface method, or lemma).
type Contract struct {
	Pkg          string // package directory key ("ion", "cmd/ion-go")
	FuncID       string // "appendVarUint", "(*bitstream).Next", "Reader.IntValue"
	Iface        bool
	Lemma        bool
	Trusted      bool
	Inline       bool
	Safe         []string    // property ids for which safety obligations are generated
	SafeSet      bool        // a //@ safe line is present
	Unroll       map[int]int // loop ordinal -> bound
	Requires     []*Clause
	Ensures      []*Clause
	Invariant    map[int][]*Clause
	Modifies     []string // location expressions (Go text)
	ModSet       bool     // a modifies clause is present (possibly empty = modifies nothing)
	ModReflect   bool     // `reflect.memory` is listed: the function may call reflect setters
	ModAll       bool     // modifies *: the callee may change anything reachable
	Line         int
	File         string
	Notes        []string
	Assumes      []string // free-text assumptions echoed in evidence
	ModelOf      string   // model: full name of the library function
	InlineCalls  []string // callees whose body (not contract) is used inside this function
	SplitReturns bool     // proof hint: postconditions are proved per return statement
	AllocBound   uint64   // >0: every make([]T, n) in the function has n <= AllocBound (obligation kind "alloc")
	AllocProps   []string
	Reveal       []string  // opaque specification functions whose definition this proof may use
	Assumed      []*Clause // trusted facts assumed at entry (`assume`), not obligations of callers
	Counts       []string  // callees whose calls made by this function are counted (ghost counters read by vcCalls)
	AtCalls      []*Clause
	LightCalls   bool   // proof hint: quantified postconditions of callees are not imported
	Pure         bool   // interface method: its results are functions of the receiver and the arguments
	ModelFn      string // model: spec-file function that replaces it
	OpaqueFn     string // opaque: name of the specification function

	// signature (filled from the AST)
	Recv    *Param
	Params  []Param
	Results []Param
	found   bool
}

func (c *Contract) AllClauses() []*Clause {
	var out []*Clause
	out = append(out, c.Requires...)
	out = append(out, c.Assumed...)
	out = append(out, c.Ensures...)
	out = append(out, c.AtCalls...)
	var ks []int
	for k := range c.Invariant {
		ks = append(ks, k)
	}
	sort.Ints(ks)
	for _, k := range ks {
		out = append(out, c.Invariant[k]...)
	}
	return out
}

var reHead = regexp.MustCompile(`^([\w-]+)(?:\[([^\]]*)\])?\s*(.*)$`)

// ParseContractFile reads the //@ lines of one contract file.
func ParseContractFile(pkgKey, path string) ([]*Contract, error) {
	data, err := os.ReadFile(path)
	if err != nil {
		return nil, err
	}
	var out []*Contract
	var cur *Contract
	type item struct {
		text string
		line int
	}
	var items []item
	for i, ln := range strings.Split(string(data), "\n") {
		t := strings.TrimRight(ln, " \t\r")
		if !strings.HasPrefix(t, "//@") {
			continue
		}
		rest := t[3:]
		if strings.HasPrefix(rest, "  ") || strings.HasPrefix(rest, "\t") {
			if len(items) == 0 {
				return nil, fmt.Errorf("%s:%d: continuation without clause", path, i+1)
			}
			items[len(items)-1].text += " " + strings.TrimSpace(rest)
			continue
		}
		items = append(items, item{strings.TrimSpace(rest), i + 1})
	}
	for _, it := range items {
		if it.text == "" {
			continue
		}
		m := reHead.FindStringSubmatch(it.text)
		if m == nil {
			return nil, fmt.Errorf("%s:%d: cannot parse %q", path, it.line, it.text)
		}
		kw, tags, rest := m[1], m[2], strings.TrimSpace(m[3])
		var props []string
		for _, p := range strings.Split(tags, ",") {
			if p = strings.TrimSpace(p); p != "" {
				props = append(props, p)
			}
		}
		switch kw {
		case "func", "interface":
			cur = &Contract{Pkg: pkgKey, FuncID: rest, Iface: kw == "interface", Unroll: map[int]int{},
				Invariant: map[int][]*Clause{}, Line: it.line, File: path}
			out = append(out, cur)
			continue
		case "opaque":
			// opaque f g ...: these specification functions are uninterpreted wherever a contract
			// does not `reveal` them
			for _, nm := range strings.Fields(rest) {
				out = append(out, &Contract{Pkg: pkgKey, FuncID: "opaque " + nm, OpaqueFn: nm, Line: it.line, File: path,
					Unroll: map[int]int{}, Invariant: map[int][]*Clause{}})
			}
			continue
		case "model":
			sp := strings.Fields(rest)
			if len(sp) != 2 {
				return nil, fmt.Errorf("%s:%d: model <library function> <spec function>", path, it.line)
			}
			out = append(out, &Contract{Pkg: pkgKey, FuncID: "model " + sp[0], ModelOf: sp[0], ModelFn: sp[1], Line: it.line, File: path,
				Unroll: map[int]int{}, Invariant: map[int][]*Clause{}})
			cur = nil
			continue
		case "lemma":
			// lemma[props] name [binders] expr
			sp := strings.SplitN(rest, " ", 2)
			if len(sp) != 2 {
				return nil, fmt.Errorf("%s:%d: lemma needs a name and a body", path, it.line)
			}
			cur = &Contract{Pkg: pkgKey, FuncID: "lemma " + sp[0], Lemma: true, Unroll: map[int]int{},
				Invariant: map[int][]*Clause{}, Line: it.line, File: path}
			out = append(out, cur)
			binders, body, err := splitBinders(strings.TrimSpace(sp[1]))
			if err != nil {
				return nil, fmt.Errorf("%s:%d: %v", path, it.line, err)
			}
			cur.Ensures = append(cur.Ensures, &Clause{Kind: "lemma", Props: props, Text: body, Binder: binders, Line: it.line})
			cur = nil
			continue
		}
		if cur == nil {
			return nil, fmt.Errorf("%s:%d: %q outside a func block", path, it.line, kw)
		}
		switch kw {
		case "unroll":
			var k, n int
			if _, err := fmt.Sscanf(rest, "loop%d %d", &k, &n); err != nil {
				return nil, fmt.Errorf("%s:%d: unroll loopK N", path, it.line)
			}
			cur.Unroll[k] = n
		case "requires":
			cur.Requires = append(cur.Requires, &Clause{Kind: "requires", Props: props, Text: rest, Line: it.line, N: len(cur.Requires)})
		case "assume":
			// a trusted fact about the environment of this function (for example a property of
			// a package-level value): assumed when the function itself is verified, not asked
			// of its callers, and listed in the evidence
			cur.Assumed = append(cur.Assumed, &Clause{Kind: "assume", Props: props, Text: rest, Line: it.line, N: len(cur.Assumed)})
		case "ensures":
			cur.Ensures = append(cur.Ensures, &Clause{Kind: "ensures", Props: props, Text: rest, Line: it.line, N: len(cur.Ensures)})
		case "cases":
			var v string
			var lo, hi int
			if _, err := fmt.Sscanf(rest, "%s %d %d", &v, &lo, &hi); err != nil || lo < 0 || hi <= lo || hi-lo > 64 {
				return nil, fmt.Errorf("%s:%d: cases <bound variable> <lo> <hi>", path, it.line)
			}
			if len(cur.Ensures) == 0 {
				return nil, fmt.Errorf("%s:%d: cases must follow an ensures clause", path, it.line)
			}
			last := cur.Ensures[len(cur.Ensures)-1]
			if !strings.HasPrefix(last.Text, "forall "+v+" ") {
				return nil, fmt.Errorf("%s:%d: cases %s: the preceding ensures clause is not of the form `forall %s T :: ...`", path, it.line, v, v)
			}
			last.CaseVar, last.CaseLo, last.CaseHi = v, lo, hi
		case "invariant", "invariant-assumed":
			var k int
			sp := strings.SplitN(rest, " ", 2)
			if _, err := fmt.Sscanf(sp[0], "loop%d", &k); err != nil || len(sp) != 2 {
				return nil, fmt.Errorf("%s:%d: invariant loopK [binders] expr", path, it.line)
			}
			binders, body, err := splitBinders(strings.TrimSpace(sp[1]))
			if err != nil {
				return nil, fmt.Errorf("%s:%d: %v", path, it.line, err)
			}
			// invariant-assumed: a bound on a loop counter that machine arithmetic cannot give (the
			// counter is treated as a mathematical integer): assumed at the loop head, never
			// checked, and listed among the assumptions of the evidence
			cur.Invariant[k] = append(cur.Invariant[k], &Clause{Kind: "invariant", Props: props, Text: body, Loop: k,
				Binder: binders, Line: it.line, N: len(cur.Invariant[k]), Unchecked: kw == "invariant-assumed"})
		case "modifies":
			cur.ModSet = true
			if rest == "*" {
				cur.ModAll = true
			} else if rest != "" && rest != "nothing" {
				for _, l := range splitTop(rest, ",") {
					if strings.TrimSpace(l) == "reflect.memory" {
						// the memory behind reflect.Values (not modelled; see reflectVersionKey)
						cur.ModReflect = true
						continue
					}
					cur.Modifies = append(cur.Modifies, strings.TrimSpace(l))
				}
			}
		case "trusted":
			cur.Trusted = true
			if rest != "" {
				cur.Assumes = append(cur.Assumes, rest)
			}
		case "inline":
			cur.Inline = true
		case "allocbound":
			v, err := strconv.ParseUint(strings.TrimSpace(strings.Replace(rest, "1<<", "", 1)), 10, 64)
			if err != nil {
				return nil, fmt.Errorf("%s:%d: allocbound N or 1<<K", path, it.line)
			}
			if strings.HasPrefix(strings.TrimSpace(rest), "1<<") {
				v = 1 << v
			}
			cur.AllocBound, cur.AllocProps = v, props
		case "atcall", "atcall-if-any":
			// atcall <callee> expr: asserted before every call of <callee> in this function
			sp := strings.SplitN(rest, " ", 2)
			if len(sp) != 2 {
				return nil, fmt.Errorf("%s:%d: atcall <callee> <expr>", path, it.line)
			}
			callee, text := sp[0], strings.TrimSpace(sp[1])
			var ptypes []string
			// optional explicit parameter types for library callees: name(T0, T1, ...)
			if k := strings.LastIndex(callee, ")("); k >= 0 && strings.HasSuffix(callee, ")") {
				// "(recv).Name(T0,T1)" was split at the first space: re-join when the type list had spaces
			}
			if strings.HasPrefix(text, "(") && !strings.HasPrefix(callee, "(*") && false {
			}
			if i := strings.Index(rest, "::"); i >= 0 {
				// form: atcall <callee> :: T0, T1, ... :: expr
				parts := strings.SplitN(rest, "::", 3)
				if len(parts) == 3 {
					callee = strings.TrimSpace(parts[0])
					for _, t := range splitTop(parts[1], ",") {
						ptypes = append(ptypes, strings.TrimSpace(t))
					}
					text = strings.TrimSpace(parts[2])
				}
			}
			// optional [x T, ...]: locals of the enclosing function, with their values at the call
			binders, body, err := splitBinders(text)
			if err != nil {
				return nil, fmt.Errorf("%s:%d: %v", path, it.line, err)
			}
			// optional call-site ordinal: callee#k is the k-th call of callee in source order
			site := -1
			if i := strings.LastIndex(callee, "#"); i >= 0 {
				k, err := strconv.Atoi(callee[i+1:])
				if err != nil {
					return nil, fmt.Errorf("%s:%d: atcall callee#k", path, it.line)
				}
				callee, site = callee[:i], k
			}
			cur.AtCalls = append(cur.AtCalls, &Clause{Kind: "atcall", Props: props, Text: body, Callee: callee, Line: it.line, N: len(cur.AtCalls), CalleeTypes: ptypes, Binder: binders, Site: site, Optional: kw == "atcall-if-any"})
		case "pure":
			cur.Pure = true
			if rest != "" {
				cur.Assumes = append(cur.Assumes, rest)
			}
		case "light":
			if rest != "calls" {
				return nil, fmt.Errorf("%s:%d: light calls", path, it.line)
			}
			cur.LightCalls = true
		case "reveal":
			cur.Reveal = append(cur.Reveal, strings.Fields(rest)...)
		case "counts":
			cur.Counts = append(cur.Counts, strings.TrimSpace(rest))
		case "split":
			if rest != "returns" {
				return nil, fmt.Errorf("%s:%d: split returns", path, it.line)
			}
			cur.SplitReturns = true
		case "inlinecall":
			cur.InlineCalls = append(cur.InlineCalls, strings.Fields(rest)...)
		case "safe":
			cur.SafeSet = true
			cur.Safe = append(cur.Safe, props...)
		case "note":
			cur.Notes = append(cur.Notes, rest)
		default:
			return nil, fmt.Errorf("%s:%d: unknown keyword %q", path, it.line, kw)
		}
	}
	return out, nil
}

// splitBinders parses an optional leading "[x T, y U]".
func splitBinders(s string) ([]Param, string, error) {
	if !strings.HasPrefix(s, "[") {
		return nil, s, nil
	}
	end := strings.Index(s, "]")
	// allow [] inside types such as []byte: find the matching bracket
	depth := 0
	end = -1
	for i, c := range s {
		if c == '[' {
			depth++
		} else if c == ']' {
			depth--
			if depth == 0 {
				end = i
				break
			}
		}
	}
	if end < 0 {
		return nil, "", fmt.Errorf("unterminated binder list")
	}
	var ps []Param
	for _, b := range splitTop(s[1:end], ",") {
		b = strings.TrimSpace(b)
		if b == "" {
			continue
		}
		sp := strings.SplitN(b, " ", 2)
		if len(sp) != 2 {
			return nil, "", fmt.Errorf("binder %q needs a type", b)
		}
		ps = append(ps, Param{sp[0], strings.TrimSpace(sp[1])})
	}
	return ps, strings.TrimSpace(s[end+1:]), nil
}

// splitTop splits s at top-level occurrences of sep (outside brackets and literals).
func splitTop(s, sep string) []string {
	var out []string
	depth := 0
	start := 0
	for i := 0; i < len(s); i++ {
		c := s[i]
		switch c {
		case '(', '[', '{':
			depth++
		case ')', ']', '}':
			depth--
		case '"':
			j := i + 1
			for j < len(s) && s[j] != '"' {
				if s[j] == '\\' {
					j++
				}
				j++
			}
			i = j
			continue
		case '\'':
			j := i + 1
			for j < len(s) && s[j] != '\'' {
				if s[j] == '\\' {
					j++
				}
				j++
			}
			i = j
			continue
		case '`':
			j := i + 1
			for j < len(s) && s[j] != '`' {
				j++
			}
			i = j
			continue
		}
		if depth == 0 && strings.HasPrefix(s[i:], sep) {
			// do not split "<==>" when looking for "==>"
			if sep == "==>" && i > 0 && s[i-1] == '<' {
				continue
			}
			out = append(out, s[start:i])
			start = i + len(sep)
			i += len(sep) - 1
		}
	}
	out = append(out, s[start:])
	return out
}

var forallFuncs = map[string]string{
	"int": "vcForallInt", "uint64": "vcForallU64", "byte": "vcForallByte", "uint8": "vcForallByte",
	"int64": "vcForallI64", "uint32": "vcForallU32", "int32": "vcForallI32", "bool": "vcForallBool",
	"rune": "vcForallI32", "uint": "vcForallUint",
}

// desugar turns the clause language (==>, <==>, forall x T :: e) into a Go expression.
func desugar(s string) (string, error) {
	s = strings.TrimSpace(s)
	for _, q := range []string{"forall", "exists"} {
		if strings.HasPrefix(s, q+" ") {
			idx := strings.Index(s, "::")
			if idx < 0 {
				return "", fmt.Errorf("%s without ::", q)
			}
			body, err := desugar(s[idx+2:])
			if err != nil {
				return "", err
			}
			binders := splitTop(s[len(q)+1:idx], ",")
			for i := len(binders) - 1; i >= 0; i-- {
				sp := strings.Fields(strings.TrimSpace(binders[i]))
				if len(sp) != 2 {
					return "", fmt.Errorf("bad binder %q", binders[i])
				}
				fn, ok := forallFuncs[sp[1]]
				if !ok {
					return "", fmt.Errorf("no quantifier over type %s", sp[1])
				}
				if q == "forall" {
					body = fmt.Sprintf("%s(func(%s %s) bool { return %s })", fn, sp[0], sp[1], body)
				} else {
					body = fmt.Sprintf("!%s(func(%s %s) bool { return !(%s) })", fn, sp[0], sp[1], body)
				}
			}
			return body, nil
		}
	}
	if parts := splitTop(s, "<==>"); len(parts) == 2 {
		a, err := desugar(parts[0])
		if err != nil {
			return "", err
		}
		b, err := desugar(parts[1])
		if err != nil {
			return "", err
		}
		return "((" + a + ") == (" + b + "))", nil
	}
	if parts := splitTop(s, "==>"); len(parts) > 1 {
		// right associative
		rhs, err := desugar(parts[len(parts)-1])
		if err != nil {
			return "", err
		}
		for i := len(parts) - 2; i >= 0; i-- {
			a, err := desugar(parts[i])
			if err != nil {
				return "", err
			}
			rhs = "(!(" + a + ") || (" + rhs + "))"
		}
		return rhs, nil
	}
	// recurse into parenthesised groups
	var b strings.Builder
	for i := 0; i < len(s); i++ {
		c := s[i]
		if c == '"' || c == '\'' || c == '`' {
			j := i + 1
			for j < len(s) && s[j] != c {
				if s[j] == '\\' && c != '`' {
					j++
				}
				j++
			}
			if j >= len(s) {
				j = len(s) - 1
			}
			b.WriteString(s[i : j+1])
			i = j
			continue
		}
		if c == '(' {
			depth := 0
			j := i
			for ; j < len(s); j++ {
				if s[j] == '(' {
					depth++
				} else if s[j] == ')' {
					depth--
					if depth == 0 {
						break
					}
				}
			}
			if j >= len(s) {
				return "", fmt.Errorf("unbalanced parentheses in %q", s)
			}
			inner := s[i+1 : j]
			if strings.Contains(inner, "==>") || strings.Contains(inner, "forall ") || strings.Contains(inner, "exists ") {
				// a call's argument list may contain commas
				args := splitTop(inner, ",")
				for k, a := range args {
					d, err := desugar(a)
					if err != nil {
						return "", err
					}
					args[k] = d
				}
				b.WriteString("(" + strings.Join(args, ", ") + ")")
			} else {
				b.WriteString("(" + inner + ")")
			}
			i = j
			continue
		}
		b.WriteByte(c)
	}
	return b.String(), nil
}

// rewriteOld replaces old(e) by e with every parameter renamed to <name>__old.
func rewriteOld(expr string, params map[string]bool) (string, error) {
	e, err := parser.ParseExpr(expr)
	if err != nil {
		return "", fmt.Errorf("%v in %q", err, expr)
	}
	var rename func(n ast.Node)
	rename = func(n ast.Node) {
		ast.Inspect(n, func(m ast.Node) bool {
			switch x := m.(type) {
			case *ast.SelectorExpr:
				rename(x.X)
				return false
			case *ast.KeyValueExpr:
				rename(x.Value)
				return false
			case *ast.Ident:
				if params[x.Name] {
					x.Name += "__old"
				}
			}
			return true
		})
	}
	var walk func(n ast.Node) ast.Node
	fix := func(x ast.Expr) ast.Expr {
		if c, ok := x.(*ast.CallExpr); ok {
			if id, ok := c.Fun.(*ast.Ident); ok && id.Name == "old" && len(c.Args) == 1 {
				rename(c.Args[0])
				return &ast.ParenExpr{X: c.Args[0]}
			}
		}
		return x
	}
	walk = func(n ast.Node) ast.Node {
		ast.Inspect(n, func(m ast.Node) bool {
			switch x := m.(type) {
			case *ast.BinaryExpr:
				x.X, x.Y = fix(x.X), fix(x.Y)
			case *ast.UnaryExpr:
				x.X = fix(x.X)
			case *ast.ParenExpr:
				x.X = fix(x.X)
			case *ast.CallExpr:
				for i := range x.Args {
					x.Args[i] = fix(x.Args[i])
				}
				x.Fun = fix(x.Fun)
			case *ast.IndexExpr:
				x.X, x.Index = fix(x.X), fix(x.Index)
			case *ast.SliceExpr:
				x.X = fix(x.X)
				if x.Low != nil {
					x.Low = fix(x.Low)
				}
				if x.High != nil {
					x.High = fix(x.High)
				}
			case *ast.SelectorExpr:
				x.X = fix(x.X)
			case *ast.StarExpr:
				x.X = fix(x.X)
			case *ast.ReturnStmt:
				for i := range x.Results {
					x.Results[i] = fix(x.Results[i])
				}
			case *ast.KeyValueExpr:
				x.Value = fix(x.Value)
			}
			return true
		})
		return n
	}
	e = fix(e)
	walk(e)
	var buf bytes.Buffer
	if err := printer.Fprint(&buf, token.NewFileSet(), e); err != nil {
		return "", err
	}
	return buf.String(), nil
}

// sigIndex collects the signatures of all functions, methods and interface methods of
// a package directory from its syntax (no type checking needed).
type sigIndex struct {
	funcs   map[string]*ast.FuncDecl // FuncID -> decl
	ifaces  map[string]*ast.FuncType // "Iface.Method" -> type
	fset    *token.FileSet
	pkgName string
	imports map[string]map[string]string // file -> import name -> path (unused for now)
	files   []*ast.File
}

func buildSigIndex(dir string) (*sigIndex, error) {
	idx := &sigIndex{funcs: map[string]*ast.FuncDecl{}, ifaces: map[string]*ast.FuncType{}, fset: token.NewFileSet()}
	ents, err := os.ReadDir(dir)
	if err != nil {
		return nil, err
	}
	for _, e := range ents {
		n := e.Name()
		if !strings.HasSuffix(n, ".go") || strings.HasSuffix(n, "_test.go") {
			continue
		}
		f, err := parser.ParseFile(idx.fset, filepath.Join(dir, n), nil, parser.SkipObjectResolution)
		if err != nil {
			return nil, err
		}
		idx.pkgName = f.Name.Name
		idx.files = append(idx.files, f)
		for _, d := range f.Decls {
			switch d := d.(type) {
			case *ast.FuncDecl:
				id := d.Name.Name
				if d.Recv != nil && len(d.Recv.List) == 1 {
					id = "(" + exprText(d.Recv.List[0].Type) + ")." + id
				}
				idx.funcs[id] = d
			case *ast.GenDecl:
				for _, s := range d.Specs {
					ts, ok := s.(*ast.TypeSpec)
					if !ok {
						continue
					}
					it, ok := ts.Type.(*ast.InterfaceType)
					if !ok {
						continue
					}
					for _, m := range it.Methods.List {
						ft, ok := m.Type.(*ast.FuncType)
						if !ok {
							continue
						}
						for _, nm := range m.Names {
							idx.ifaces[ts.Name.Name+"."+nm.Name] = ft
						}
					}
				}
			}
		}
	}
	return idx, nil
}

func exprText(e ast.Expr) string {
	var buf bytes.Buffer
	printer.Fprint(&buf, token.NewFileSet(), e)
	return buf.String()
}

func (idx *sigIndex) fill(c *Contract) error {
	var ft *ast.FuncType
	if c.Lemma || c.ModelOf != "" || c.OpaqueFn != "" {
		c.found = true
		return nil
	}
	if c.Iface {
		t, ok := idx.ifaces[c.FuncID]
		if !ok {
			return fmt.Errorf("interface method %s not found", c.FuncID)
		}
		ft = t
		c.Recv = &Param{"recv", strings.SplitN(c.FuncID, ".", 2)[0]}
	} else {
		d, ok := idx.funcs[c.FuncID]
		if !ok {
			return fmt.Errorf("function %s not found", c.FuncID)
		}
		ft = d.Type
		if d.Recv != nil {
			name := "recv"
			if len(d.Recv.List[0].Names) == 1 && d.Recv.List[0].Names[0].Name != "_" {
				name = d.Recv.List[0].Names[0].Name
			}
			c.Recv = &Param{name, exprText(d.Recv.List[0].Type)}
		}
	}
	pi := 0
	for _, f := range ft.Params.List {
		ty := exprText(f.Type)
		if strings.HasPrefix(ty, "...") {
			ty = "[]" + ty[3:]
		}
		if len(f.Names) == 0 {
			c.Params = append(c.Params, Param{fmt.Sprintf("p%d", pi), ty})
			pi++
		}
		for _, n := range f.Names {
			nm := n.Name
			if nm == "_" {
				nm = fmt.Sprintf("p%d", pi)
			}
			c.Params = append(c.Params, Param{nm, ty})
			pi++
		}
	}
	if ft.Results != nil {
		var tys []string
		for _, f := range ft.Results.List {
			k := len(f.Names)
			if k == 0 {
				k = 1
			}
			for i := 0; i < k; i++ {
				tys = append(tys, exprText(f.Type))
			}
		}
		nonErr := 0
		for i, ty := range tys {
			if !(ty == "error" && i == len(tys)-1) {
				nonErr++
			}
		}
		for i, ty := range tys {
			switch {
			case ty == "error" && i == len(tys)-1:
				c.Results = append(c.Results, Param{"err", ty})
			case nonErr == 1:
				c.Results = append(c.Results, Param{"result", ty})
			default:
				c.Results = append(c.Results, Param{"result" + strconv.Itoa(i), ty})
			}
		}
	}
	c.found = true
	return nil
}

// paramTypes returns, for every function of the package, the types of its receiver and
// parameters in order.
func (idx *sigIndex) paramTypes() map[string][]string {
	out := map[string][]string{}
	for id, d := range idx.funcs {
		var ts []string
		if d.Recv != nil && len(d.Recv.List) == 1 {
			ts = append(ts, exprText(d.Recv.List[0].Type))
		}
		for _, f := range d.Type.Params.List {
			ty := exprText(f.Type)
			if strings.HasPrefix(ty, "...") {
				ty = "[]" + ty[3:]
			}
			k := len(f.Names)
			if k == 0 {
				k = 1
			}
			for i := 0; i < k; i++ {
				ts = append(ts, ty)
			}
		}
		out[id] = ts
	}
	return out
}

func sanitize(s string) string {
	var b strings.Builder
	for _, c := range s {
		if c >= 'a' && c <= 'z' || c >= 'A' && c <= 'Z' || c >= '0' && c <= '9' {
			b.WriteRune(c)
		} else if c == '*' {
			b.WriteString("P")
		} else if c == '.' || c == ' ' {
			b.WriteString("_")
		}
	}
	return b.String()
}

// GenClauses fills in GoFunc for every clause and returns the Go source of the overlay
// file that defines the clause functions.
func GenClauses(pkgName string, imports []string, cs []*Contract, calleeParams map[string][]string) (string, error) {
	var b strings.Builder
	b.WriteString("// Code generated by ionvc from the //@ contracts. DO NOT EDIT.\n\n")
	b.WriteString("//go:build verif\n// +build verif\n\n")
	fmt.Fprintf(&b, "package %s\n\n", pkgName)
	if len(imports) > 0 {
		b.WriteString("import (\n")
		for _, im := range imports {
			fmt.Fprintf(&b, "\t%s\n", im)
		}
		b.WriteString(")\n\n")
	}
	for _, c := range cs {
		base := "vc__" + sanitize(c.FuncID)
		pset := map[string]bool{}
		var ps []Param
		if c.Recv != nil {
			ps = append(ps, *c.Recv)
		}
		ps = append(ps, c.Params...)
		for _, p := range ps {
			pset[p.Name] = true
		}
		for _, cl := range c.AllClauses() {
			name := fmt.Sprintf("%s__%s%d", base, cl.Kind, cl.N)
			if cl.Kind == "invariant" {
				name = fmt.Sprintf("%s__inv%d_%d", base, cl.Loop, cl.N)
			}
			cl.GoFunc = name
			ex, err := desugar(cl.Text)
			if err != nil {
				return "", fmt.Errorf("%s:%d: %v", c.File, cl.Line, err)
			}
			ex, err = rewriteOld(ex, pset)
			if err != nil {
				return "", fmt.Errorf("%s:%d: %v", c.File, cl.Line, err)
			}
			var sig []string
			for _, p := range ps {
				sig = append(sig, p.Name+" "+p.Type)
			}
			if cl.Kind == "ensures" {
				for _, r := range c.Results {
					sig = append(sig, r.Name+" "+r.Type)
				}
			}
			if cl.Kind == "atcall" {
				cp, ok := calleeParams[cl.Callee]
				if len(cl.CalleeTypes) > 0 {
					cp, ok = cl.CalleeTypes, true
				}
				if !ok {
					return "", fmt.Errorf("%s:%d: atcall: function %s not found", c.File, cl.Line, cl.Callee)
				}
				for k, t := range cp {
					sig = append(sig, fmt.Sprintf("a%d %s", k, t))
				}
			}
			for _, p := range cl.Binder {
				sig = append(sig, p.Name+" "+p.Type)
			}
			for _, p := range ps {
				sig = append(sig, p.Name+"__old "+p.Type)
			}
			fmt.Fprintf(&b, "// %s %s (%s:%d)\nfunc %s(%s) bool {\n\treturn %s\n}\n\n", c.FuncID, cl.Kind, filepath.Base(c.File), cl.Line,
				name, strings.Join(sig, ", "), ex)
		}
		// modifies: one function whose body evaluates each location expression's address
		if len(c.Modifies) > 0 {
			var sig []string
			for _, p := range ps {
				sig = append(sig, p.Name+" "+p.Type)
			}
			fmt.Fprintf(&b, "func %s__modifies(%s) {\n", base, strings.Join(sig, ", "))
			for _, m := range c.Modifies {
				if strings.HasSuffix(m, "{*}") {
					fmt.Fprintf(&b, "\tvcModMap(%s)\n", strings.TrimSuffix(m, "{*}"))
				} else if strings.HasSuffix(m, "[*]") {
					fmt.Fprintf(&b, "\tvcModElems(len(%s), &(%s)[0])\n", strings.TrimSuffix(m, "[*]"), strings.TrimSuffix(m, "[*]"))
				} else {
					fmt.Fprintf(&b, "\tvcMod(&(%s))\n", m)
				}
			}
			b.WriteString("}\n\n")
		}
	}
	return b.String(), nil
}
