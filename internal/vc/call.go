package vc

import (
	"fmt"
	"go/ast"
	"go/constant"
	"go/token"
	"go/types"
	"os"
	"sort"
	"strings"

	"golang.org/x/tools/go/ssa"
)

const repoPrefix = "github.com/amzn/ion-go"

func inRepo(fn *ssa.Function) bool {
	if fn == nil {
		return false
	}
	p := fn.Package()
	if p == nil && fn.Parent() != nil {
		p = fn.Parent().Package()
	}
	if p == nil {
		// wrappers and bound methods have no package: look at the receiver / origin
		if fn.Object() != nil && fn.Object().Pkg() != nil {
			return strings.HasPrefix(fn.Object().Pkg().Path(), repoPrefix)
		}
		return false
	}
	return strings.HasPrefix(p.Pkg.Path(), repoPrefix)
}

// funcID returns the contract-file identifier of a function: "name", "(*T).name", "(T).name".
func funcID(fn *ssa.Function) string {
	if fn.Signature.Recv() != nil {
		rt := fn.Signature.Recv().Type()
		if p, ok := rt.(*types.Pointer); ok {
			if n, ok := p.Elem().(*types.Named); ok {
				return "(*" + n.Obj().Name() + ")." + fn.Name()
			}
		}
		if n, ok := rt.(*types.Named); ok {
			return "(" + n.Obj().Name() + ")." + fn.Name()
		}
	}
	return fn.Name()
}

func fullName(fn *ssa.Function) string {
	if fn.Object() != nil {
		if f, ok := fn.Object().(*types.Func); ok {
			return f.FullName()
		}
	}
	return fn.String()
}

func (f *frame) call(n *node, in *ssa.Call) bool {
	x := f.x
	common := &in.Call
	saved := f.curCall
	f.curCall = in
	defer func() { f.curCall = saved }()
	if b, ok := common.Value.(*ssa.Builtin); ok {
		return f.builtin(n, in, b)
	}
	var args []Val
	for _, a := range common.Args {
		args = append(args, f.lookup(n, a))
	}
	if common.IsInvoke() {
		recv := f.lookup(n, common.Value)
		if recv.Dyn != nil {
			// dynamic type known statically: resolve the method
			sel := x.w.Prog.MethodSets.MethodSet(recv.Dyn).Lookup(common.Method.Pkg(), common.Method.Name())
			if sel != nil {
				callee := x.w.Prog.MethodValue(sel)
				if callee != nil {
					payload := f.unbox(n, recv, recv.Dyn)
					res, ok := f.invokeStatic(n, callee, append([]Val{payload}, args...), nil, in.Pos(), in)
					if ok {
						n.env[in] = res
					}
					return ok
				}
			}
		}
		f.atCallAssertionsNamed(n, in, ifaceMethodID(recv, common.Method), "", append([]Val{recv}, args...))
		x.safety(f, n, "nil", "invoke:"+common.Method.Name(), not(eq(recv.C[0], bvLit(0, 32))), in.Pos())
		res := f.invokeIface(n, recv, common.Method, args, in)
		n.env[in] = res
		f.countFailed(n, ifaceMethodID(recv, common.Method), "", res)
		return true
	}
	if callee := common.StaticCallee(); callee != nil {
		f.atCallAssertions(n, in, callee, args)
		var binds []Val
		if mc, ok := common.Value.(*ssa.MakeClosure); ok {
			for _, b := range mc.Bindings {
				binds = append(binds, f.lookup(n, b))
			}
		}
		res, ok := f.invokeStatic(n, callee, args, binds, in.Pos(), in)
		if ok {
			n.env[in] = res
			f.countFailed(n, funcID(callee), fullName(callee), res)
		}
		return ok
	}
	// call of a function value
	fv := f.lookup(n, common.Value)
	if fv.Fn != nil {
		res, ok := f.invokeStatic(n, fv.Fn, args, fv.Bind, in.Pos(), in)
		if ok {
			n.env[in] = res
		}
		return ok
	}
	x.safety(f, n, "nil", "funcvalue", not(eq(fv.C[0], NilRef)), in.Pos())
	x.note("call of an unknown function value in %s: result havocked, heap unchanged", f.fn.Name())
	n.env[in] = x.havocResult(in.Type(), "fv")
	return true
}

func (x *Exec) havocResult(t types.Type, hint string) Val {
	x.allocN += 32 // the callee may return objects it allocated
	return x.havoc(t, hint)
}

// invokeStatic handles a call whose target function is known.
func (f *frame) invokeStatic(n *node, callee *ssa.Function, args []Val, binds []Val, pos token.Pos, in *ssa.Call) (Val, bool) {
	x := f.x
	name := callee.Name()
	if callee.Origin() != nil {
		callee = callee.Origin()
	}
	if strings.HasPrefix(name, "vc") && inRepo(callee) {
		if r, handled := f.intrinsic(n, callee, args); handled {
			return r, true
		}
	}
	if x.w.Opaque[name] && (x.w.isSpecFunc(callee) || f.spec || x.inSpec()) {
		if r, ok := f.opaqueCall(n, callee, args); ok {
			return r, true
		}
	}
	full := fullName(callee)
	if m, ok := x.w.Models[full]; ok {
		mf := x.w.specFunc(m)
		if mf == nil {
			unsup("model function %s for %s not found", m, full)
		}
		margs := args
		// receiver of an opaque library type is viewed through the ghost struct of the model
		if len(margs) > 0 && len(mf.Params) > 0 && isPtr(mf.Params[0].Type()) && isPtr(margs[0].T) {
			a := margs[0]
			a.T = mf.Params[0].Type()
			a.Key = ""
			margs = append([]Val{a}, margs[1:]...)
		}
		x.note("library call %s replaced by the trusted model %s", full, m)
		return f.inline(n, mf, margs, nil, true, nil)
	}
	if r, handled := f.external(n, callee, full, args, in); handled {
		return r, true
	}
	if inRepo(callee) || callee.Parent() != nil && inRepo(callee.Parent()) {
		if c := x.w.contractFor(callee); c != nil && !c.Inline && ((!f.spec && !x.inSpec()) || x.tolerant) && !x.w.isSpecFunc(callee) && !x.inlineCall(c) {
			return f.applyContract(n, c, callee, args, pos), true
		}
		if len(callee.Blocks) > 0 && !x.noInline {
			for _, s := range x.stack {
				if s == callee {
					x.note("recursive call of %s: result havocked, heap havocked", callee.Name())
					nh, _ := x.havocAll(n.heap, true)
					n.heap = nh
					return x.havocResult(resultType(callee.Signature), "rec."+callee.Name()), true
				}
			}
			var ctr *Contract
			if c := x.w.contractFor(callee); c != nil {
				ctr = c
			}
			return f.inline(n, callee, args, binds, f.spec || x.w.isSpecFunc(callee), ctr)
		}
	}
	x.note("call of %s has no contract or model: result havocked, heap unchanged, assumed to return", full)
	return x.havocResult(resultType(callee.Signature), "ext."+callee.Name()), true
}

func resultType(sig *types.Signature) types.Type {
	if sig.Results().Len() == 1 {
		return sig.Results().At(0).Type()
	}
	return sig.Results()
}

// inline executes the callee's body at the call site.
func (f *frame) inline(n *node, callee *ssa.Function, args []Val, binds []Val, spec bool, ctr *Contract) (Val, bool) {
	x := f.x
	if x.callDepth > 12 {
		unsup("inlining deeper than 12 calls at %s", callee.Name())
	}
	sub := &frame{x: x, fn: callee, ctr: ctr, args: args, spec: spec, paramVals: map[*ssa.Parameter]Val{}, freeVals: map[*ssa.FreeVar]Val{}}
	if len(args) != len(callee.Params) {
		unsup("call of %s with %d arguments for %d parameters", callee.Name(), len(args), len(callee.Params))
	}
	for i, p := range callee.Params {
		sub.paramVals[p] = x.coerce(args[i], p.Type())
	}
	for i, fv := range callee.FreeVars {
		if i >= len(binds) {
			unsup("closure %s called without its bindings", callee.Name())
		}
		sub.freeVals[fv] = binds[i]
	}
	sub.outer = f.activeEpochs(n)
	sub.entryFacts = n.facts
	x.stack = append(x.stack, callee)
	x.callDepth++
	sub.run(n.reach, n.heap)
	x.callDepth--
	x.stack = x.stack[:len(x.stack)-1]
	if len(sub.rets) == 0 {
		// every path of the callee panics
		n.reach = "false"
		return Val{}, false
	}
	// path-sensitive continuation: when the callee returns along a few distinct paths, the
	// rest of the caller's block is executed once per return instead of on merged values
	if in := f.curCall; in != nil && !f.spec && !x.inSpec() && !x.noFork && len(sub.rets) > 1 && len(sub.rets) <= 128 {
		p := n
		if n.primary != nil {
			p = n.primary
		}
		if len(p.clones)+len(sub.rets) <= 2000 {
			if os.Getenv("IONVC_DEBUG") != "" {
				fmt.Fprintf(os.Stderr, "fork %s in %s: %d returns\n", callee.Name(), f.fn.Name(), len(sub.rets))
				if os.Getenv("IONVC_DEBUG") == "2" {
					for _, r := range sub.rets {
						fmt.Fprintf(os.Stderr, "    ret at %v reach=%s facts=%v\n", x.w.Prog.Fset.Position(r.pos), r.reach, r.facts)
					}
				}
			}
			for _, r := range sub.rets[1:] {
				c := n.fork()
				x.nextPC++
				c.pc = x.nextPC
				c.heap = r.heap.clone()
				c.reach = r.reach
				c.env[in] = r.val
				c.facts = r.facts
				f.forks = append(f.forks, c)
			}
			r0 := sub.rets[0]
			n.heap = r0.heap.clone()
			n.reach = r0.reach
			n.facts = r0.facts
			return r0.val, true
		}
	}
	var conds []string
	var heaps []*Heap
	for _, r := range sub.rets {
		conds = append(conds, r.reach)
		heaps = append(heaps, r.heap)
	}
	res := sub.rets[len(sub.rets)-1].val
	for i := len(sub.rets) - 2; i >= 0; i-- {
		if !sameVal(sub.rets[i].val, res) {
			res = x.iteVal(sub.rets[i].reach, sub.rets[i].val, res)
		}
	}
	n.heap = x.mergeHeaps(conds, heaps)
	n.reach = x.g.Fresh(SortBool, or(conds...))
	n.facts = sub.rets[0].facts
	for _, r := range sub.rets[1:] {
		n.facts = intersectFacts(n.facts, r.facts)
	}
	return res, true
}

func (x *Exec) inlineCall(c *Contract) bool {
	if x.ctr == nil {
		return false
	}
	for _, id := range x.ctr.InlineCalls {
		if id == c.FuncID {
			return true
		}
	}
	return false
}

func (w *World) contractFor(fn *ssa.Function) *Contract {
	return w.ByFunc[fn]
}

// applyContract replaces a call by the callee's contract.
func (f *frame) applyContract(n *node, c *Contract, callee *ssa.Function, args []Val, pos token.Pos) Val {
	x := f.x
	pre := n.heap.clone()
	for _, r := range c.Requires {
		// (the facts learnt while evaluating a precondition stay available to the code after
		// the call, guarded by the call's reach: the callee's postconditions are stated over
		// the same loaded values)
		t := x.evalClauseAt(n.reach, f, r, n.heap, pre, args, nil, nil)
		if !x.tolerant {
			x.oblige("pre", fmt.Sprintf("%s.requires%d", c.FuncID, r.N), mergeProps(r.Props, x.safeProps), and(n.reach, not(t)), f.fn, pos)
		}
		n.reach = x.g.Fresh(SortBool, and(n.reach, t))
	}
	// the state behind interface-typed arguments may change: observers are re-evaluated.
	// A callee that may write through a pointer it receives may also reach interface values
	// stored behind it: then every version moves on.
	var ifaceArgs []Val
	ptrArg := false
	for _, a := range args {
		if a.T == nil {
			continue
		}
		switch a.T.Underlying().(type) {
		case *types.Interface:
			if len(a.C) == 2 {
				ifaceArgs = append(ifaceArgs, a)
			}
		case *types.Pointer, *types.Slice, *types.Map:
			ptrArg = true
		}
	}
	if ptrArg && (len(c.Modifies) > 0 || !c.ModSet) {
		f.bumpIfaceVersion(n)
	} else if len(ifaceArgs) > 0 {
		f.bumpIfaceVersion(n, ifaceArgs...)
	}
	// frame: havoc what the callee may modify
	if c.ModAll {
		nh, _ := x.havocAll(n.heap, true)
		x.keepCounters(n.heap, nh)
		n.heap = nh
	}
	if len(c.Modifies) > 0 {
		savedReach := x.specReach
		x.specReach = n.reach
		locs := x.evalModifies(f, c, n.heap, args)
		x.specReach = savedReach
		for _, l := range locs {
			f.havocLoc(n, l)
		}
	}
	if c.ModReflect && !c.ModAll {
		f.bumpReflectVersion(n)
	}
	x.freshBase = append(x.freshBase, x.allocLimit())
	defer func() { x.freshBase = x.freshBase[:len(x.freshBase)-1] }()
	x.allocN += 32
	res := x.havoc(resultType(callee.Signature), "ret."+callee.Name())
	if x.w.Opaque[callee.Name()] {
		// an opaque pure function: its result is the same uninterpreted application in code
		// and in specifications
		if r, ok := f.opaqueCall(n, callee, args); ok {
			res = r
		}
	}
	var results []Val
	if len(res.Sub) > 0 {
		results = res.Sub
	} else if callee.Signature.Results().Len() == 1 {
		results = []Val{res}
	}
	for _, e := range c.Ensures {
		if x.ctr != nil && x.ctr.LightCalls && strings.HasPrefix(e.Text, "forall ") {
			continue // proof hint `light calls`: assuming less is always sound
		}
		t := x.evalClauseAt(n.reach, f, e, n.heap, pre, args, results, nil)
		x.g.Assume(implies(n.reach, t))
	}
	x.note("call of %s uses its contract (%s:%d)", c.FuncID, c.File, c.Line)
	return res
}

func mergeProps(a, b []string) []string {
	seen := map[string]bool{}
	var out []string
	for _, s := range append(append([]string{}, a...), b...) {
		if !seen[s] {
			seen[s] = true
			out = append(out, s)
		}
	}
	return out
}

func (f *frame) havocLoc(n *node, l modLoc) {
	x := f.x
	p := l.ptr
	if l.isMap {
		m := p.T.Underlying().(*types.Map)
		ks := x.mapKeySort(m.Key())
		base := mapHeapKey(p.T)
		set := func(key, sort string) {
			arr := x.hget(n.heap, key, sort, ks)
			fresh := x.g.Const("mod."+key, arrSort(ks, sort))
			x.hset(n.heap, key, sort, ks, x.g.Fresh(heapArraySort(sort, ks), "(store "+arr+" "+p.C[0]+" "+fresh+")"), p.C[0])
			for _, ep := range f.activeEpochs(n) {
				ep.written[key] = true
			}
		}
		set(base+".dom", SortBool)
		for _, c := range x.comps(m.Elem()) {
			set(base+".val"+c.suffix, c.sort)
		}
		return
	}
	key := x.ptrKey(p)
	pt := p.T.Underlying().(*types.Pointer).Elem()
	eps := f.activeEpochs(n)
	if name, ok := isOpaque(pt); ok && name == "math/big.Int" {
		// `modifies *z` for a *big.Int: the integer it holds is unknown afterwards
		arr := x.hget(n.heap, bigIntKey, SortInt, "")
		fresh := x.g.Const("mod.big", SortInt)
		x.hset(n.heap, bigIntKey, SortInt, "", x.g.Fresh(heapArraySort(SortInt, ""), "(store "+arr+" "+p.C[0]+" "+fresh+")"), p.C[0])
		for _, ep := range eps {
			ep.written[bigIntKey] = true
		}
	}
	for _, c := range x.comps(pt) {
		if p.Idx != "" {
			k := key + c.suffix + "[]"
			arr := x.hget(n.heap, k, c.sort, SortBV64)
			var inner string
			if l.elems {
				inner = x.g.Const("mod."+k, arrSort(SortBV64, c.sort))
			} else {
				inner = "(store (select " + arr + " " + p.C[0] + ") " + p.Idx + " " + x.g.Const("mod."+k, c.sort) + ")"
			}
			x.hset(n.heap, k, c.sort, SortBV64, x.g.Fresh(heapArraySort(c.sort, SortBV64), "(store "+arr+" "+p.C[0]+" "+inner+")"), p.C[0])
			for _, ep := range eps {
				ep.written[k] = true
			}
		} else {
			k := key + c.suffix
			arr := x.hget(n.heap, k, c.sort, "")
			fresh := x.g.Const("mod."+k, c.sort)
			x.hset(n.heap, k, c.sort, "", x.g.Fresh(heapArraySort(c.sort, ""), "(store "+arr+" "+p.C[0]+" "+fresh+")"), p.C[0])
			for _, ep := range eps {
				ep.written[k] = true
			}
			// havocked component keeps the runtime's type invariants
		}
	}
	if p.Idx == "" {
		// the havocked location keeps the runtime's type invariants
		x.specDepth++
		v := f.load(n, p, pt, token.NoPos, "mod")
		x.specDepth--
		x.assumeWellFormed(v, n.reach)
	}
}

// evalModifies runs the generated modifies function and collects the locations.
func (x *Exec) evalModifies(f *frame, c *Contract, heap *Heap, args []Val) []modLoc {
	fn := x.w.clauseFunc(c, "vc__"+sanitize(c.FuncID)+"__modifies")
	if fn == nil {
		unsup("modifies function of %s missing", c.FuncID)
	}
	var locs []modLoc
	saved := x.modCollect
	x.modCollect = &locs
	x.specDepth++
	sub := &frame{x: x, fn: fn, args: args, spec: true, paramVals: map[*ssa.Parameter]Val{}, freeVals: map[*ssa.FreeVar]Val{}}
	for i, p := range fn.Params {
		sub.paramVals[p] = args[i]
	}
	reach := x.specReach
	if reach == "" {
		reach = "true"
	}
	sub.run(reach, heap.clone())
	x.specDepth--
	x.modCollect = saved
	return locs
}

// evalClauseAt evaluates a clause in the state of a program point reached under `reach`.
func (x *Exec) evalClauseAt(reach string, f *frame, cl *Clause, heap, old *Heap, args []Val, results []Val, binders map[string]Val) string {
	saved := x.specReach
	x.specReach = reach
	defer func() { x.specReach = saved }()
	return x.evalClause(f, cl, heap, old, args, results, binders)
}

// evalClauseGoal evaluates a clause that is about to be *checked* at one program point:
// the facts assumed while evaluating it (well-formedness of loaded values, contracts of
// observers) are returned as hypotheses of that one obligation instead of joining the
// global assumptions, where they would have to carry the point's reach as a guard.
func (x *Exec) evalClauseGoal(f *frame, cl *Clause, heap, old *Heap, args []Val, results []Val, binders map[string]Val) (string, string) {
	if x.g.InQuant() {
		return x.evalClause(f, cl, heap, old, args, results, binders), "true"
	}
	if os.Getenv("IONVC_GLOBALFACTS") != "" {
		return x.evalClauseAt(x.goalReach, f, cl, heap, old, args, results, binders), "true"
	}
	saved := x.specReach
	x.specReach = ""
	mark := x.g.MarkAssumes()
	t := x.evalClause(f, cl, heap, old, args, results, binders)
	facts := x.g.TakeAssumes(mark)
	x.specReach = saved
	return t, x.g.Fresh(SortBool, and(facts...))
}

// evalClause evaluates a clause function and returns its Bool term.
func (x *Exec) evalClause(f *frame, cl *Clause, heap, old *Heap, args []Val, results []Val, binders map[string]Val) string {
	fn := x.w.ClauseFn[cl.GoFunc]
	if fn == nil {
		unsup("clause function %s not found (contract does not attach)", cl.GoFunc)
	}
	var all []Val
	all = append(all, args...)
	if cl.Kind == "ensures" {
		all = append(all, results...)
	}
	for _, b := range cl.Binder {
		v, ok := binders[b.Name]
		if !ok {
			unsup("no value for binder %s", b.Name)
		}
		all = append(all, v)
	}
	for _, a := range args {
		o := a
		o.Old = true
		all = append(all, o)
	}
	if len(all) != len(fn.Params) {
		unsup("clause %s: %d arguments for %d parameters", cl.GoFunc, len(all), len(fn.Params))
	}
	sub := &frame{x: x, fn: fn, args: all, spec: true, paramVals: map[*ssa.Parameter]Val{}, freeVals: map[*ssa.FreeVar]Val{}}
	for i, p := range fn.Params {
		sub.paramVals[p] = x.coerce(all[i], p.Type())
	}
	x.oldHeaps = append(x.oldHeaps, old)
	x.specDepth++
	x.stack = append(x.stack, fn)
	// The clause is evaluated in the state of one program point: whatever is assumed while
	// evaluating it (well-formedness of the values it loads, contracts of the observers it
	// calls) is a fact about that point only and is guarded by the point's reach.
	reach := x.specReach
	if reach == "" {
		reach = "true"
	}
	sub.run(reach, heap.clone())
	x.stack = x.stack[:len(x.stack)-1]
	x.specDepth--
	x.oldHeaps = x.oldHeaps[:len(x.oldHeaps)-1]
	if len(sub.rets) == 0 {
		unsup("clause %s does not return", cl.GoFunc)
	}
	res := sub.rets[len(sub.rets)-1].val.C[0]
	for i := len(sub.rets) - 2; i >= 0; i-- {
		res = ite(sub.rets[i].reach, sub.rets[i].val.C[0], res)
	}
	return x.g.Fresh(SortBool, res)
}

// intrinsic handles the vc* helper functions of the specification file.
func (f *frame) intrinsic(n *node, callee *ssa.Function, args []Val) (Val, bool) {
	x := f.x
	g := x.g
	name := callee.Name()
	switch {
	case strings.HasPrefix(name, "vcForall"):
		cl := args[0]
		if cl.Fn == nil {
			unsup("%s needs a function literal", name)
		}
		pt := cl.Fn.Params[0].Type()
		cs := x.comps(pt)
		sk := x.skolemNext
		x.skolemNext = nil
		if sk != nil && (len(cs) != 1 || g.InQuant()) {
			sk = nil
		}
		// the bound variable is named by nesting depth, so that two evaluations of the same
		// quantified formula over the same state give the same text (and one shared term)
		bv := fmt.Sprintf("q!d%d", g.QuantDepth())
		if sk != nil {
			bv = g.Const("forall."+cl.Fn.Params[0].Name(), cs[0].sort)
			sk.name, sk.sort, sk.v = bv, cs[0].sort, Val{T: pt, C: []string{bv}}
		} else {
			g.PushScope(bv)
		}
		sub := &frame{x: x, fn: cl.Fn, spec: true, paramVals: map[*ssa.Parameter]Val{}, freeVals: map[*ssa.FreeVar]Val{}}
		sub.paramVals[cl.Fn.Params[0]] = Val{T: pt, C: []string{bv}}
		for i, fv := range cl.Fn.FreeVars {
			sub.freeVals[fv] = cl.Bind[i]
		}
		x.specDepth++
		sub.run("true", n.heap.clone())
		x.specDepth--
		body := "true"
		if len(sub.rets) > 0 {
			body = sub.rets[len(sub.rets)-1].val.C[0]
			for i := len(sub.rets) - 2; i >= 0; i-- {
				body = ite(sub.rets[i].reach, sub.rets[i].val.C[0], body)
			}
		}
		if sk != nil {
			return Val{T: types.Typ[types.Bool], C: []string{g.Fresh(SortBool, body)}}, true
		}
		inner := g.PopScope(body)
		t := g.Fresh(SortBool, "(forall (("+bv+" "+cs[0].sort+")) "+inner+")")
		return Val{T: types.Typ[types.Bool], C: []string{t}}, true
	case name == "vcMapAllU64":
		// vcMapAllU64(m, f): f holds for the value of every key present in m
		m := args[0]
		cl := args[1]
		if cl.Fn == nil {
			unsup("%s needs a function literal", name)
		}
		mt := callee.Params[0].Type()
		mm := mt.Underlying().(*types.Map)
		ks := x.mapKeySort(mm.Key())
		h := f.heapFor(n, m)
		base := mapHeapKey(mt)
		dom := x.hget(h, base+".dom", SortBool, ks)
		vc := x.comps(mm.Elem())
		if len(vc) != 1 {
			unsup("%s: map values must be scalars", name)
		}
		varr := x.hget(h, base+".val"+vc[0].suffix, vc[0].sort, ks)
		kv := fmt.Sprintf("k!d%d", g.QuantDepth())
		g.PushScope(kv)
		sub := &frame{x: x, fn: cl.Fn, spec: true, paramVals: map[*ssa.Parameter]Val{}, freeVals: map[*ssa.FreeVar]Val{}}
		sub.paramVals[cl.Fn.Params[0]] = Val{T: mm.Elem(), C: []string{g.Fresh(vc[0].sort, "(select (select "+varr+" "+m.C[0]+") "+kv+")")}}
		for i, fv := range cl.Fn.FreeVars {
			sub.freeVals[fv] = cl.Bind[i]
		}
		x.specDepth++
		sub.run("true", n.heap.clone())
		x.specDepth--
		body := "true"
		if len(sub.rets) > 0 {
			body = sub.rets[len(sub.rets)-1].val.C[0]
			for i := len(sub.rets) - 2; i >= 0; i-- {
				body = ite(sub.rets[i].reach, sub.rets[i].val.C[0], body)
			}
		}
		inner := g.PopScope(implies("(select (select "+dom+" "+m.C[0]+") "+kv+")", body))
		t := g.Fresh(SortBool, "(forall (("+kv+" "+ks+")) "+inner+")")
		return Val{T: types.Typ[types.Bool], C: []string{t}}, true
	case name == "vcModMap":
		if x.modCollect == nil {
			return Val{T: callee.Signature.Results()}, true
		}
		a := args[0]
		if len(a.Bind) == 1 {
			a = a.Bind[0]
		}
		*x.modCollect = append(*x.modCollect, modLoc{ptr: a, isMap: true})
		return Val{T: callee.Signature.Results()}, true
	case name == "vcMod" || name == "vcModElems":
		if x.modCollect == nil {
			return Val{T: callee.Signature.Results()}, true
		}
		a := args[len(args)-1]
		if len(a.Bind) != 1 {
			unsup("vcMod needs an address expression")
		}
		*x.modCollect = append(*x.modCollect, modLoc{ptr: a.Bind[0], elems: name == "vcModElems"})
		return Val{T: callee.Signature.Results()}, true
	case name == "vcCalls" || name == "vcFailed":
		// vcCalls("callee"): calls of the callee made so far by the function under proof;
		// vcFailed("callee"): those of them that returned a non-nil error
		id := ""
		if f.curCall != nil && len(f.curCall.Call.Args) == 1 {
			if k, ok := f.curCall.Call.Args[0].(*ssa.Const); ok && k.Value != nil {
				id = constant.StringVal(k.Value)
			}
		}
		if id == "" {
			unsup("vcCalls needs a string literal")
		}
		if name == "vcFailed" {
			id = failedID(id)
		}
		return Val{T: types.Typ[types.Int], C: []string{x.getCounter(n.heap, id)}}, true
	case name == "vcStreamOf" || name == "vcBufferOf" || name == "vcBuilderOf":
		// ghost view of a *bufio.Reader
		a := args[0]
		return Val{T: callee.Signature.Results().At(0).Type(), C: a.C, Old: a.Old}, true
	case name == "vcStreamOfReader" || name == "vcBufferOfWriter":
		// ghost view of a *bufio.Reader held in an io.Reader
		a := args[0]
		ref := a.C[len(a.C)-1]
		if len(a.Bind) == 1 && len(a.Bind[0].C) == 1 {
			ref = a.Bind[0].C[0]
		}
		return Val{T: callee.Signature.Results().At(0).Type(), C: []string{ref}, Old: a.Old}, true
	case name == "vcFresh":
		// vcFresh(p): the object (pointer, slice backing array, map) p refers to was allocated
		// by the function the clause belongs to
		a := args[0]
		if len(a.Bind) == 1 {
			a = a.Bind[0]
		}
		base := AllocBase
		if len(x.freshBase) > 0 {
			base = x.freshBase[len(x.freshBase)-1]
		}
		return Val{T: types.Typ[types.Bool], C: []string{g.Fresh(SortBool, "(bvuge "+a.C[0]+" "+refLit(base)+")")}}, true
	case name == "vcSameArray":
		a, b := args[0], args[1]
		if len(a.Bind) == 1 {
			a = a.Bind[0]
		}
		if len(b.Bind) == 1 {
			b = b.Bind[0]
		}
		return Val{T: types.Typ[types.Bool], C: []string{g.Fresh(SortBool, eq(a.C[0], b.C[0]))}}, true
	case name == "vcSameObject":
		// vcSameObject(a, b): the interface values a and b hold (a pointer to) the same object
		a, b := args[0], args[1]
		if len(a.Bind) == 1 {
			a = a.Bind[0]
		}
		if len(b.Bind) == 1 {
			b = b.Bind[0]
		}
		return Val{T: types.Typ[types.Bool], C: []string{g.Fresh(SortBool, eq(a.C[len(a.C)-1], b.C[len(b.C)-1]))}}, true
	case name == "vcIsNil":
		a := args[0]
		return Val{T: types.Typ[types.Bool], C: []string{g.Fresh(SortBool, eq(a.C[0], bvLit(0, 32)))}}, true
	case name == "vcTypeIs":
		// vcTypeIs(x interface{}, sample interface{}): same dynamic type
		a, b := args[0], args[1]
		return Val{T: types.Typ[types.Bool], C: []string{g.Fresh(SortBool, eq(a.C[0], b.C[0]))}}, true
	}
	return Val{}, false
}

// invokeIface handles an interface method call whose dynamic type is unknown.
func (f *frame) invokeIface(n *node, recv Val, m *types.Func, args []Val, in *ssa.Call) Val {
	x := f.x
	it := ""
	if named, ok := m.Type().(*types.Signature).Recv().Type().(*types.Named); ok {
		it = named.Obj().Name()
	} else if named, ok := recv.T.(*types.Named); ok {
		it = named.Obj().Name()
	}
	if it == "Type" && m.Pkg() != nil && m.Pkg().Path() == "reflect" && m.Name() == "Kind" {
		kindOf := x.g.Fun("reflect:kindOfType", []string{SortRef}, SortBV64)
		return Val{T: in.Type(), C: []string{x.g.Fresh(SortBV64, "("+kindOf+" "+recv.C[1]+")")}}
	}
	if c := x.w.Iface[it+"."+m.Name()]; c != nil && c.Pure {
		// a pure observer: every result component is an uninterpreted function of the
		// receiver and the arguments (assumption: implementations are deterministic and the
		// observed object is not modified between the calls that are compared)
		var terms, sorts []string
		terms = append(terms, recv.C[0], recv.C[1], f.ifaceVersion(n, recv))
		sorts = append(sorts, SortTag, SortRef, SortBV64)
		for _, a := range args {
			switch {
			case isString(a.T):
				terms = append(terms, a.C...)
				sorts = append(sorts, arrSort(SortBV64, SortBV8), SortBV64, SortBV64)
			default:
				cs := x.comps(a.T)
				if _, ok := a.T.Underlying().(*types.Basic); !ok || len(cs) != 1 {
					unsup("pure interface method %s.%s: argument of type %s", it, m.Name(), a.T)
				}
				terms = append(terms, a.C[0])
				sorts = append(sorts, cs[0].sort)
			}
		}
		x.note("interface call %s.%s is a pure observer (uninterpreted function of receiver and arguments)", it, m.Name())
		mk := func(t types.Type, k int) Val {
			v := Val{T: t}
			for ci, cc := range x.comps(t) {
				fn := x.g.Fun(fmt.Sprintf("iface:%s.%s#%d.%d", it, m.Name(), k, ci), sorts, cc.sort)
				v.C = append(v.C, x.g.Fresh(cc.sort, "("+fn+" "+strings.Join(terms, " ")+")"))
			}
			if !x.g.InQuant() {
				x.assumeWellFormed(v, "true")
			}
			return v
		}
		sig := m.Type().(*types.Signature)
		var res Val
		var results []Val
		if sig.Results().Len() == 1 {
			res = mk(sig.Results().At(0).Type(), 0)
			results = []Val{res}
		} else {
			res = Val{T: sig.Results()}
			for k := 0; k < sig.Results().Len(); k++ {
				res.Sub = append(res.Sub, mk(sig.Results().At(k).Type(), k))
			}
			results = res.Sub
		}
		// the interface contract's postconditions hold for the observed values
		if len(c.Ensures) > 0 && !f.spec && !x.inSpec() {
			pre := n.heap.clone()
			all := append([]Val{recv}, args...)
			for _, e := range c.Ensures {
				t := x.evalClauseAt(n.reach, f, e, n.heap, pre, all, results, nil)
				x.g.Assume(implies(n.reach, t))
			}
		}
		return res
	}
	// the call may change the object behind the receiver and those behind interface-typed
	// arguments; other objects are assumed independent of them (trusted: no hidden aliasing
	// between, say, a Reader and the Writer it is copied into)
	bumped := []Val{recv}
	for _, a := range args {
		if a.T != nil {
			if _, ok := a.T.Underlying().(*types.Interface); ok && len(a.C) == 2 {
				bumped = append(bumped, a)
			}
		}
	}
	f.bumpIfaceVersion(n, bumped...)
	x.note("trusted: a call on one interface value does not change the state observed through another interface value that is not passed to it")
	if c := x.w.Iface[it+"."+m.Name()]; c != nil && !f.spec && !x.inSpec() {
		pre := n.heap.clone()
		all := append([]Val{recv}, args...)
		for _, r := range c.Requires {
			t, facts := x.evalClauseGoal(f, r, n.heap, pre, all, nil, nil)
			x.oblige("pre", fmt.Sprintf("%s.requires%d", c.FuncID, r.N), mergeProps(r.Props, x.safeProps), and(n.reach, facts, not(t)), f.fn, in.Pos())
			n.reach = x.g.Fresh(SortBool, and(n.reach, t))
		}
		x.allocN += 32
		res := x.havoc(in.Type(), "ret."+m.Name())
		var results []Val
		if len(res.Sub) > 0 {
			results = res.Sub
		} else if m.Type().(*types.Signature).Results().Len() == 1 {
			results = []Val{res}
		}
		if !c.ModSet {
			// an interface method may change the state behind the interface: that state is
			// opaque to the caller, the caller's own heap is untouched
		}
		for _, e := range c.Ensures {
			t := x.evalClauseAt(n.reach, f, e, n.heap, pre, all, results, nil)
			x.g.Assume(implies(n.reach, t))
		}
		x.note("interface call %s.%s uses the interface contract", it, m.Name())
		return res
	}
	if it == "error" || m.Name() == "Error" || m.Name() == "String" {
		return x.havocResult(in.Type(), "str")
	}
	x.note("interface call %s.%s has no contract: result havocked, caller-visible heap unchanged", it, m.Name())
	return x.havocResult(in.Type(), "inv."+m.Name())
}

// ---------------------------------------------------------------------------
// builtins

func (f *frame) builtin(n *node, in *ssa.Call, b *ssa.Builtin) bool {
	x := f.x
	g := x.g
	args := in.Call.Args
	switch b.Name() {
	case "len", "cap":
		v := f.lookup(n, args[0])
		switch u := args[0].Type().Underlying().(type) {
		case *types.Slice:
			i := 2
			if b.Name() == "cap" {
				i = 3
			}
			n.env[in] = Val{T: in.Type(), C: []string{v.C[i]}}
		case *types.Basic:
			n.env[in] = Val{T: in.Type(), C: []string{v.C[2]}}
		case *types.Array:
			n.env[in] = Val{T: in.Type(), C: []string{bvLit(uint64(u.Len()), 64)}}
		case *types.Pointer:
			at := u.Elem().Underlying().(*types.Array)
			n.env[in] = Val{T: in.Type(), C: []string{bvLit(uint64(at.Len()), 64)}}
		case *types.Map:
			n.env[in] = Val{T: in.Type(), C: []string{f.mapLen(n, v, args[0].Type())}}
		default:
			unsup("len of %s", args[0].Type())
		}
		return true
	case "append":
		n.env[in] = f.appendBuiltin(n, in)
		return true
	case "copy":
		n.env[in] = f.copyBuiltin(n, in)
		return true
	case "delete":
		f.mapDelete(n, in)
		return true
	case "print", "println":
		return true
	case "recover":
		n.env[in] = x.zero(in.Type())
		return true
	case "ssa:wrapnilchk":
		n.env[in] = f.lookup(n, args[0])
		return true
	}
	_ = g
	unsup("builtin %s", b.Name())
	return true
}

// appendBuiltin models append(s, e...): the result is a fresh backing array holding a
// copy of s's array contents followed by e (the in-place variant of the runtime is not
// modelled: code that relies on aliasing between s and the result is outside the subset).
func (f *frame) appendBuiltin(n *node, in *ssa.Call) Val {
	x := f.x
	g := x.g
	s := f.lookup(n, in.Call.Args[0])
	e := f.lookup(n, in.Call.Args[1])
	st := in.Type().Underlying().(*types.Slice)
	key := x.sliceKey(s)
	if s.Key != "" && s.Key != elemKey(st.Elem()) {
		unsup("append to a slice of an embedded array")
	}
	key = elemKey(st.Elem())
	var elen, eoff string
	estr := isString(in.Call.Args[1].Type())
	if estr {
		eoff, elen = e.C[1], e.C[2]
	} else {
		eoff, elen = e.C[1], e.C[2]
	}
	newlen := g.Fresh(SortBV64, "(bvadd "+s.C[2]+" "+elen+")")
	ref := x.newRef()
	start := g.Fresh(SortBV64, "(bvadd "+s.C[1]+" "+s.C[2]+")")
	eps := f.activeEpochs(n)
	for _, c := range x.comps(st.Elem()) {
		k := key + c.suffix + "[]"
		harr := x.hget(n.heap, k, c.sort, SortBV64)
		srcArr := g.Fresh(arrSort(SortBV64, c.sort), "(select "+harr+" "+s.C[0]+")")
		var eArr string
		if estr {
			eArr = e.C[0]
		} else {
			ek := x.sliceKey(e) + c.suffix + "[]"
			eh := x.hget(f.heapFor(n, e), ek, c.sort, SortBV64)
			eArr = g.Fresh(arrSort(SortBV64, c.sort), "(select "+eh+" "+e.C[0]+")")
		}
		var dst string
		bound := e.StaticCap
		if lit, ok := constLen(elen); ok {
			bound = lit
		}
		if bound > 0 && bound <= 16 {
			dst = srcArr
			for k2 := 0; k2 < bound; k2++ {
				kk := bvLit(uint64(k2), 64)
				st := "(store " + dst + " (bvadd " + start + " " + kk + ") (select " + eArr + " (bvadd " + eoff + " " + kk + ")))"
				if _, ok := constLen(elen); ok {
					dst = g.Fresh(arrSort(SortBV64, c.sort), st)
				} else {
					dst = g.Fresh(arrSort(SortBV64, c.sort), ite("(bvult "+kk+" "+elen+")", st, dst))
				}
			}
		} else if l, ok := constLen(elen); ok && l == 0 {
			dst = srcArr
		} else {
			if g.InQuant() {
				unsup("append of unbounded length under a quantifier")
			}
			dst = g.Const("append", arrSort(SortBV64, c.sort))
			g.Assume("(forall ((i! (_ BitVec 64))) (= (select " + dst + " i!) (ite (bvult (bvsub i! " + start + ") " + elen + ") (select " + eArr + " (bvadd " + eoff + " (bvsub i! " + start + "))) (select " + srcArr + " i!))))")
		}
		x.hset(n.heap, k, c.sort, SortBV64, g.Fresh(heapArraySort(c.sort, SortBV64), "(store "+harr+" "+ref+" "+dst+")"), ref)
		for _, ep := range eps {
			ep.written[k] = true
		}
	}
	// capacity: at least the new length
	cp := g.Const("append.cap", SortBV64)
	g.Assume(and("(bvuge "+cp+" "+newlen+")", "(bvult "+cp+" #x4000000000000000)"))
	// the length cannot overflow: both operands are below 2^62
	r := Val{T: in.Type(), C: []string{ref, s.C[1], newlen, cp}}
	return r
}

func constLen(t string) (int, bool) {
	var v uint64
	var w int
	if n, _ := fmt.Sscanf(t, "(_ bv%d %d)", &v, &w); n == 2 && w == 64 && v < 1<<20 {
		return int(v), true
	}
	return 0, false
}

func (f *frame) copyBuiltin(n *node, in *ssa.Call) Val {
	x := f.x
	g := x.g
	d := f.lookup(n, in.Call.Args[0])
	s := f.lookup(n, in.Call.Args[1])
	dt := in.Call.Args[0].Type().Underlying().(*types.Slice)
	cnt := g.Fresh(SortBV64, ite("(bvult "+d.C[2]+" "+s.C[2]+")", d.C[2], s.C[2]))
	sstr := isString(in.Call.Args[1].Type())
	eps := f.activeEpochs(n)
	for _, c := range x.comps(dt.Elem()) {
		k := x.sliceKey(d) + c.suffix + "[]"
		harr := x.hget(n.heap, k, c.sort, SortBV64)
		dArr := g.Fresh(arrSort(SortBV64, c.sort), "(select "+harr+" "+d.C[0]+")")
		var sArr string
		if sstr {
			sArr = s.C[0]
		} else {
			sk := x.sliceKey(s) + c.suffix + "[]"
			sArr = g.Fresh(arrSort(SortBV64, c.sort), "(select "+x.hget(f.heapFor(n, s), sk, c.sort, SortBV64)+" "+s.C[0]+")")
		}
		bound := 0
		if d.StaticCap > 0 {
			bound = d.StaticCap
		}
		if s.StaticCap > 0 && (bound == 0 || s.StaticCap < bound) {
			bound = s.StaticCap
		}
		var dst string
		if bound > 0 && bound <= 16 {
			dst = dArr
			for k2 := 0; k2 < bound; k2++ {
				kk := bvLit(uint64(k2), 64)
				st := "(store " + dst + " (bvadd " + d.C[1] + " " + kk + ") (select " + sArr + " (bvadd " + s.C[1] + " " + kk + ")))"
				dst = g.Fresh(arrSort(SortBV64, c.sort), ite("(bvult "+kk+" "+cnt+")", st, dst))
			}
		} else {
			if g.InQuant() {
				unsup("copy under a quantifier")
			}
			dst = g.Const("copy", arrSort(SortBV64, c.sort))
			g.Assume("(forall ((i! (_ BitVec 64))) (= (select " + dst + " i!) (ite (bvult (bvsub i! " + d.C[1] + ") " + cnt + ") (select " + sArr + " (bvadd " + s.C[1] + " (bvsub i! " + d.C[1] + "))) (select " + dArr + " i!))))")
		}
		x.hset(n.heap, k, c.sort, SortBV64, g.Fresh(heapArraySort(c.sort, SortBV64), "(store "+harr+" "+d.C[0]+" "+dst+")"), d.C[0])
		for _, ep := range eps {
			ep.written[k] = true
		}
	}
	return Val{T: in.Type(), C: []string{cnt}}
}

// opaqueCall translates a call of an opaque specification function to the application of
// an uninterpreted function to the flattened arguments (slices and strings are passed as
// their contents, offset and length). A proof that `reveal`s the function additionally
// gets its definition for this application.
func (f *frame) opaqueCall(n *node, callee *ssa.Function, args []Val) (Val, bool) {
	x := f.x
	g := x.g
	revealed := x.revealAll // a lemma is a statement about the specification functions themselves
	if x.ctr != nil {
		for _, r := range x.ctr.Reveal {
			if r == callee.Name() {
				revealed = true
			}
		}
	}
	if revealed && g.InQuant() {
		return Val{}, false // use the definition directly
	}
	rt := resultType(callee.Signature)
	var terms, sorts []string
	for i, a := range args {
		switch u := callee.Params[i].Type().Underlying().(type) {
		case *types.Slice:
			ec := x.comps(u.Elem())
			if len(ec) != 1 {
				unsup("opaque function %s: slice of %s", callee.Name(), u.Elem())
			}
			arr := x.hget(f.heapFor(n, a), x.sliceKey(a)+ec[0].suffix+"[]", ec[0].sort, SortBV64)
			terms = append(terms, g.Fresh(arrSort(SortBV64, ec[0].sort), "(select "+arr+" "+a.C[0]+")"), a.C[1], a.C[2])
			sorts = append(sorts, arrSort(SortBV64, ec[0].sort), SortBV64, SortBV64)
		case *types.Basic:
			cs := x.comps(callee.Params[i].Type())
			for k, c := range cs {
				terms = append(terms, a.C[k])
				sorts = append(sorts, c.sort)
			}
		case *types.Struct:
			cs := x.comps(callee.Params[i].Type())
			if len(cs) != len(a.C) {
				unsup("opaque function %s: struct parameter shape", callee.Name())
			}
			for k, c := range cs {
				terms = append(terms, a.C[k])
				sorts = append(sorts, c.sort)
			}
		default:
			unsup("opaque function %s: parameter of type %s", callee.Name(), callee.Params[i].Type())
		}
	}
	mk := func(t types.Type, k int) Val {
		v := Val{T: t}
		for ci, cc := range x.comps(t) {
			fn := g.Fun(fmt.Sprintf("spec:%s#%d.%d", callee.Name(), k, ci), sorts, cc.sort)
			v.C = append(v.C, g.Fresh(cc.sort, "("+fn+" "+strings.Join(terms, " ")+")"))
		}
		if !g.InQuant() {
			x.assumeWellFormed(v, "true")
		}
		return v
	}
	var res Val
	if tup, ok := rt.(*types.Tuple); ok {
		res = Val{T: rt}
		for k := 0; k < tup.Len(); k++ {
			res.Sub = append(res.Sub, mk(tup.At(k).Type(), k))
		}
	} else {
		res = mk(rt, 0)
	}
	if revealed {
		def, ok := f.inline(n, callee, args, nil, true, nil)
		if ok && len(def.C) == len(res.C) && len(def.Sub) == 0 {
			// The definition was inlined at this node and may have been simplified with the
			// facts that hold on the way here: the equation is a fact about this point only.
			for i := range def.C {
				g.Assume(implies(n.reach, eq(res.C[i], def.C[i])))
			}
		}
	}
	return res, true
}

// atCallAssertions checks the `atcall` clauses of the function under verification before a
// call of the named callee: the clause sees the function's own parameters (entry values)
// and the call's receiver and arguments as a0, a1, ...
func (f *frame) atCallAssertions(n *node, in *ssa.Call, callee *ssa.Function, args []Val) {
	f.atCallAssertionsNamed(n, in, funcID(callee), fullName(callee), args)
}

// ifaceMethodID names an interface method as contracts do: "Writer.WriteInt".
func ifaceMethodID(recv Val, m *types.Func) string {
	it := ""
	if named, ok := m.Type().(*types.Signature).Recv().Type().(*types.Named); ok {
		it = named.Obj().Name()
	} else if named, ok := recv.T.(*types.Named); ok {
		it = named.Obj().Name()
	}
	return it + "." + m.Name()
}

func (f *frame) atCallAssertionsNamed(n *node, in *ssa.Call, id, full string, args []Val) {
	x := f.x
	defer f.countCall(n, id, full) // the assertions see the count before this call
	if x.ctr == nil || len(x.ctr.AtCalls) == 0 || f.spec || x.inSpec() || len(x.stack) != 1 {
		return
	}
	for _, cl := range x.ctr.AtCalls {
		if cl.Callee != id && (full == "" || cl.Callee != full) {
			continue
		}
		if cl.Site >= 0 && f.callSiteOrdinal(in, id, full) != cl.Site {
			continue
		}
		if x.atCallSeen == nil {
			x.atCallSeen = map[*Clause]int{}
		}
		x.atCallSeen[cl]++
		fn := x.w.ClauseFn[cl.GoFunc]
		if fn == nil {
			unsup("clause function %s not found", cl.GoFunc)
		}
		var all []Val
		all = append(all, f.args...)
		all = append(all, args...)
		for _, b := range cl.Binder {
			v := f.localAt(in, b.Name)
			if v == nil {
				unsup("atcall %s: no definition of local %q reaches the call at %s", cl.GoFunc, b.Name, x.w.Prog.Fset.Position(in.Pos()))
			}
			all = append(all, f.lookup(n, v))
		}
		for _, a := range f.args {
			o := a
			o.Old = true
			all = append(all, o)
		}
		if len(all) != len(fn.Params) {
			unsup("atcall %s: %d values for %d parameters", cl.GoFunc, len(all), len(fn.Params))
		}
		sub := &frame{x: x, fn: fn, args: all, spec: true, paramVals: map[*ssa.Parameter]Val{}, freeVals: map[*ssa.FreeVar]Val{}}
		for i, p := range fn.Params {
			sub.paramVals[p] = x.coerce(all[i], p.Type())
		}
		x.oldHeaps = append(x.oldHeaps, f.entryHeap)
		x.specDepth++
		x.stack = append(x.stack, fn)
		mark := x.g.MarkAssumes()
		sub.run("true", n.heap.clone())
		facts := x.g.Fresh(SortBool, and(x.g.TakeAssumes(mark)...))
		x.stack = x.stack[:len(x.stack)-1]
		x.specDepth--
		x.oldHeaps = x.oldHeaps[:len(x.oldHeaps)-1]
		if len(sub.rets) == 0 {
			unsup("clause %s does not return", cl.GoFunc)
		}
		t := sub.rets[len(sub.rets)-1].val.C[0]
		for i := len(sub.rets) - 2; i >= 0; i-- {
			t = ite(sub.rets[i].reach, sub.rets[i].val.C[0], t)
		}
		t = x.g.Fresh(SortBool, t)
		x.oblige("atcall", fmt.Sprintf("%s.%d", cl.Callee, cl.N), cl.Props, and(n.reach, facts, not(t)), f.fn, in.Pos())
		x.lastObl.Detail, x.lastObl.Clause, x.lastObl.Group = cl.Text, cl, fmt.Sprintf("atcall%d", cl.N)
	}
}

// Ghost call counters (`counts <callee>`): the number of calls of the callee made directly
// by the function under proof so far. They live in the heap, so that joins merge them and
// loop cuts havoc them (an invariant says what they are); a callee never changes them.
func counterKey(id string) string { return "ghost:calls:" + id }

func (x *Exec) setCounter(h *Heap, id, v string) {
	k := counterKey(id)
	arr := x.hget(h, k, SortBV64, "")
	x.hset(h, k, SortBV64, "", x.g.Fresh(heapArraySort(SortBV64, ""), "(store "+arr+" "+NilRef+" "+v+")"), NilRef)
}

func (x *Exec) getCounter(h *Heap, id string) string {
	arr := x.hget(h, counterKey(id), SortBV64, "")
	return x.g.Fresh(SortBV64, "(select "+arr+" "+NilRef+")")
}

func (f *frame) countCall(n *node, id, full string) {
	x := f.x
	if x.ctr == nil || len(x.ctr.Counts) == 0 || f.spec || x.inSpec() || len(x.stack) != 1 {
		return
	}
	for _, c := range x.ctr.Counts {
		if c == id || (full != "" && c == full) {
			x.setCounter(n.heap, c, "(bvadd "+x.getCounter(n.heap, c)+" "+bvLit(1, 64)+")")
			for _, ep := range f.activeEpochs(n) {
				ep.written[counterKey(c)] = true
			}
		}
	}
}

// failedID names the companion counter of a counted callee: the calls that returned a
// non-nil error (read by vcFailed).
func failedID(id string) string { return id + "!failed" }

// countFailed runs after a counted call returned: when the callee's last result is an error,
// the failed-call counter goes up by one exactly when that error is not nil.
func (f *frame) countFailed(n *node, id, full string, res Val) {
	x := f.x
	if x.ctr == nil || len(x.ctr.Counts) == 0 || f.spec || x.inSpec() || len(x.stack) != 1 {
		return
	}
	ev := res
	if len(res.Sub) > 0 {
		ev = res.Sub[len(res.Sub)-1]
	}
	if ev.T == nil || !types.Identical(ev.T, types.Universe.Lookup("error").Type()) || len(ev.C) == 0 {
		return
	}
	for _, c := range x.ctr.Counts {
		if c == id || (full != "" && c == full) {
			fid := failedID(c)
			inc := "(ite " + eq(ev.C[0], bvLit(0, 32)) + " " + bvLit(0, 64) + " " + bvLit(1, 64) + ")"
			x.setCounter(n.heap, fid, "(bvadd "+x.getCounter(n.heap, fid)+" "+inc+")")
			for _, ep := range f.activeEpochs(n) {
				ep.written[counterKey(fid)] = true
			}
		}
	}
}

// keepCounters carries the ghost call counters over a havoc of the whole heap.
func (x *Exec) keepCounters(pre, post *Heap) {
	if x.ctr == nil {
		return
	}
	for _, c := range x.ctr.Counts {
		x.setCounter(post, c, x.getCounter(pre, c))
		x.setCounter(post, failedID(c), x.getCounter(pre, failedID(c)))
	}
}

// The state observed through pure interface methods is versioned: every call that may
// change an object behind an interface (a non-pure interface method, a contract call
// that receives an interface value) moves the ghost version on, and a pure observer is a
// function of receiver, arguments and the version current at the call. The version lives
// in the heap (so it is merged at joins, havocked by loops and `modifies *`, and `old`
// sees the old one).
const ifaceVerKey = "ghost:ifaceVersion"

func (f *frame) ifaceVersion(n *node, recv Val) string {
	x := f.x
	h := n.heap
	if recv.Old {
		h = f.heapFor(n, recv)
	}
	arr := x.hget(h, ifaceVerKey, SortBV64, "")
	return x.g.Fresh(SortBV64, "(select "+arr+" "+recv.C[1]+")")
}

// bumpIfaceVersion moves on the versions of the given interface values (the objects a call
// may change: its receiver and the interface values it is handed). With no value given,
// every version moves on.
func (f *frame) bumpIfaceVersion(n *node, vals ...Val) {
	x := f.x
	if f.spec || x.inSpec() {
		return
	}
	if len(vals) == 0 {
		x.hset(n.heap, ifaceVerKey, SortBV64, "", x.g.Const("ifacever.all", heapArraySort(SortBV64, "")), NilRef)
	}
	for _, r := range vals {
		if len(r.C) < 2 {
			continue
		}
		arr := x.hget(n.heap, ifaceVerKey, SortBV64, "")
		v := x.g.Const("ifacever", SortBV64)
		x.hset(n.heap, ifaceVerKey, SortBV64, "", x.g.Fresh(heapArraySort(SortBV64, ""), "(store "+arr+" "+r.C[1]+" "+v+")"), r.C[1])
	}
	for _, ep := range f.activeEpochs(n) {
		ep.written[ifaceVerKey] = true
	}
}

// localAt finds the value a named local of the enclosing function holds just before
// instruction `at`: the nearest preceding reference to the identifier (go/ssa debug
// references record the value of every use and assignment) or phi that merges it, walking
// back through single predecessors and otherwise to the immediate dominator (with several
// predecessors and no phi the variable has the same value on all of them).
func (f *frame) localAt(at ssa.Instruction, name string) ssa.Value {
	b := at.Block()
	idx := len(b.Instrs)
	for i, ins := range b.Instrs {
		if ins == at {
			idx = i
		}
	}
	for steps := 0; b != nil && steps < 10000; steps++ {
		for i := idx - 1; i >= 0; i-- {
			switch d := b.Instrs[i].(type) {
			case *ssa.DebugRef:
				if id, ok := d.Expr.(*ast.Ident); ok && id.Name == name && !d.IsAddr {
					if _, isConst := d.X.(*ssa.Const); isConst && f.x.w.DefPos[id.Pos()] {
						continue // the declaration's reference holds the stale zero value
					}
					if os.Getenv("IONVC_DEBUGINV") != "" {
						fmt.Fprintf(os.Stderr, "  localAt(%s): block %d instr %d: %s\n", name, b.Index, i, d.X.String())
					}
					return d.X
				}
			case *ssa.Phi:
				if d.Comment == name {
					return d
				}
			}
		}
		if len(b.Preds) == 1 {
			b = b.Preds[0]
		} else {
			b = b.Idom()
		}
		if b != nil {
			idx = len(b.Instrs)
		}
	}
	return nil
}

// callSiteOrdinal numbers the calls of one callee inside the function in source order.
func (f *frame) callSiteOrdinal(at *ssa.Call, id, full string) int {
	var sites []*ssa.Call
	for _, b := range f.fn.Blocks {
		for _, ins := range b.Instrs {
			c, ok := ins.(*ssa.Call)
			if !ok {
				continue
			}
			cid, cfull := "", ""
			if c.Call.IsInvoke() {
				cid = ifaceMethodID(Val{T: c.Call.Value.Type()}, c.Call.Method)
			} else if callee := c.Call.StaticCallee(); callee != nil {
				if callee.Origin() != nil {
					callee = callee.Origin()
				}
				cid, cfull = funcID(callee), fullName(callee)
			} else {
				continue
			}
			if cid == id || (full != "" && cfull == full) {
				sites = append(sites, c)
			}
		}
	}
	sort.SliceStable(sites, func(i, j int) bool { return sites[i].Pos() < sites[j].Pos() })
	for i, c := range sites {
		if c == at {
			return i
		}
	}
	return -1
}
