package vc

import (
	"fmt"
	"go/token"
	"go/types"
	"os"
	"path/filepath"
	"regexp"
	"sort"
	"strings"
	"time"

	"golang.org/x/tools/go/packages"
	"golang.org/x/tools/go/ssa"
	"golang.org/x/tools/go/ssa/ssautil"
)

// PkgSpec names one verified package of the repository.
type PkgSpec struct {
	Key string // "ion", "cmd/ion-go"
	Dir string // absolute directory
}

// World is the loaded program together with its contracts.
type World struct {
	Repo      string
	Prog      *ssa.Program
	DefPos    map[token.Pos]bool
	Pkgs      map[string]*ssa.Package // by key
	Contracts []*Contract
	ByFunc    map[*ssa.Function]*Contract
	ByID      map[string]*Contract // key: pkgKey + ":" + FuncID
	Iface     map[string]*Contract // "Reader.IntValue"
	ClauseFn  map[string]*ssa.Function
	Models    map[string]string // full name of a library function -> model function in the spec file
	Opaque    map[string]bool   // opaque specification functions
	Overlay   map[string][]byte
	LoadTime  time.Duration
	specFiles map[string]bool
	Errors    []string
}

var importRe = regexp.MustCompile(`\b(io|math|big|bufio|time|reflect|bytes|strings|utf8|strconv|fmt|sort|ion)\.[A-Z]`)

var importPaths = map[string]string{
	"io": `"io"`, "math": `"math"`, "big": `"math/big"`, "bufio": `"bufio"`, "time": `"time"`, "reflect": `"reflect"`,
	"ion": `"github.com/amzn/ion-go/ion"`, "bytes": `"bytes"`, "strings": `"strings"`, "utf8": `"unicode/utf8"`, "strconv": `"strconv"`, "fmt": `"fmt"`, "sort": `"sort"`,
}

const (
	ContractFile = "zz_verif_contracts.go"
	SpecFile     = "zz_verif_spec.go"
	ClauseFile   = "zz_verif_clauses_gen.go"
)

// Load parses the contract files, generates the clause functions, loads the packages
// with the `verif` build tag and builds SSA.
func Load(repo string, extraOverlay map[string][]byte) (*World, error) {
	t0 := time.Now()
	w := &World{Repo: repo, Pkgs: map[string]*ssa.Package{}, ByFunc: map[*ssa.Function]*Contract{}, ByID: map[string]*Contract{},
		Iface: map[string]*Contract{}, ClauseFn: map[string]*ssa.Function{}, Models: map[string]string{}, Opaque: map[string]bool{}, Overlay: map[string][]byte{},
		specFiles: map[string]bool{}}
	for k, v := range extraOverlay {
		w.Overlay[k] = v
	}
	specs := []PkgSpec{{"ion", filepath.Join(repo, "ion")}, {"cmd/ion-go", filepath.Join(repo, "cmd/ion-go")}}
	var patterns []string
	for _, ps := range specs {
		cf := filepath.Join(ps.Dir, ContractFile)
		patterns = append(patterns, "./"+ps.Key)
		if _, err := os.Stat(cf); err != nil {
			continue
		}
		cs, err := ParseContractFile(ps.Key, cf)
		if err != nil {
			return nil, err
		}
		idx, err := buildSigIndex(ps.Dir)
		if err != nil {
			return nil, err
		}
		var ok []*Contract
		for _, c := range cs {
			if err := idx.fill(c); err != nil {
				w.Errors = append(w.Errors, fmt.Sprintf("%s:%d: %v (contract does not attach)", cf, c.Line, err))
				continue
			}
			ok = append(ok, c)
		}
		var texts []string
		for _, c := range ok {
			for _, cl := range c.AllClauses() {
				texts = append(texts, cl.Text)
			}
			texts = append(texts, c.Modifies...)
			if c.Recv != nil {
				texts = append(texts, c.Recv.Type)
			}
			for _, p := range append(append([]Param{}, c.Params...), c.Results...) {
				texts = append(texts, p.Type)
			}
			for _, cl := range c.AllClauses() {
				for _, b := range cl.Binder {
					texts = append(texts, b.Type)
				}
				texts = append(texts, cl.CalleeTypes...)
			}
		}
		impSet := map[string]bool{}
		for _, t := range texts {
			for _, m := range importRe.FindAllStringSubmatch(t, -1) {
				impSet[importPaths[m[1]]] = true
			}
		}
		var imps []string
		for i := range impSet {
			imps = append(imps, i)
		}
		sort.Strings(imps)
		src, err := GenClauses(idx.pkgName, imps, ok, idx.paramTypes())
		if err != nil {
			return nil, err
		}
		w.Overlay[filepath.Join(ps.Dir, ClauseFile)] = []byte(src)
		if d := os.Getenv("IONVC_DUMPCLAUSES"); d != "" {
			os.MkdirAll(d, 0o755)
			os.WriteFile(filepath.Join(d, strings.ReplaceAll(ps.Key, "/", "_")+"_"+ClauseFile), []byte(src), 0o644)
		}
		w.Contracts = append(w.Contracts, ok...)
		w.specFiles[filepath.Join(ps.Dir, SpecFile)] = true
		w.specFiles[filepath.Join(ps.Dir, ClauseFile)] = true
	}
	cfg := &packages.Config{
		Mode:       packages.LoadAllSyntax,
		Dir:        repo,
		Overlay:    w.Overlay,
		BuildFlags: []string{"-tags=verif", "-mod=mod"},
		Env:        append(os.Environ(), "GOFLAGS=-mod=mod", "GOPROXY=off", "GOSUMDB=off", "GOTOOLCHAIN=local"),
	}
	pkgs, err := packages.Load(cfg, patterns...)
	if err != nil {
		return nil, err
	}
	var errs []string
	packages.Visit(pkgs, nil, func(p *packages.Package) {
		for _, e := range p.Errors {
			errs = append(errs, e.Error())
		}
	})
	if len(errs) > 0 {
		return nil, fmt.Errorf("package errors:\n%s", strings.Join(errs, "\n"))
	}
	prog, spkgs := ssautil.AllPackages(pkgs, ssa.GlobalDebug)
	w.Prog = prog
	// positions of defining identifiers: the debug reference go/ssa keeps for a local's
	// declaration records the value before the initialising store (the zero value)
	w.DefPos = map[token.Pos]bool{}
	for _, p := range pkgs {
		if p.TypesInfo == nil {
			continue
		}
		for id, obj := range p.TypesInfo.Defs {
			if obj != nil {
				w.DefPos[id.Pos()] = true
			}
		}
	}
	for i, p := range pkgs {
		if spkgs[i] == nil {
			return nil, fmt.Errorf("no SSA for %s", p.PkgPath)
		}
		key := strings.TrimPrefix(strings.TrimPrefix(p.PkgPath, repoPrefix), "/")
		w.Pkgs[key] = spkgs[i]
		spkgs[i].Build()
	}
	// attach contracts
	for _, c := range w.Contracts {
		pkg := w.Pkgs[c.Pkg]
		if pkg == nil {
			w.Errors = append(w.Errors, fmt.Sprintf("contract %s: package %s not loaded", c.FuncID, c.Pkg))
			continue
		}
		for _, cl := range c.AllClauses() {
			fn := pkg.Func(cl.GoFunc)
			if fn == nil {
				w.Errors = append(w.Errors, fmt.Sprintf("clause function %s missing", cl.GoFunc))
				continue
			}
			w.ClauseFn[cl.GoFunc] = fn
		}
		if len(c.Modifies) > 0 {
			name := "vc__" + sanitize(c.FuncID) + "__modifies"
			if fn := pkg.Func(name); fn != nil {
				w.ClauseFn[name] = fn
			}
		}
		w.ByID[c.Pkg+":"+c.FuncID] = c
		switch {
		case c.Lemma:
		case c.OpaqueFn != "":
			w.Opaque[c.OpaqueFn] = true
		case c.ModelOf != "":
			w.Models[c.ModelOf] = c.ModelFn
		case c.Iface:
			w.Iface[c.FuncID] = c
		default:
			fn := w.FindFunc(pkg, c.FuncID)
			if fn == nil {
				w.Errors = append(w.Errors, fmt.Sprintf("%s:%d: function %s not found in SSA (contract does not attach)", c.File, c.Line, c.FuncID))
				continue
			}
			w.ByFunc[fn] = c
		}
	}
	// library models: functions named vcModel_<sanitised full name> in the spec file
	if ion := w.Pkgs["ion"]; ion != nil {
		for name, m := range ion.Members {
			fn, ok := m.(*ssa.Function)
			if !ok || !strings.HasPrefix(name, "vcModel_") {
				continue
			}
			_ = fn
		}
	}
	w.LoadTime = time.Since(t0)
	return w, nil
}

// RegisterModel maps a library function (types.Func.FullName) to a spec-file function.
func (w *World) RegisterModel(full, model string) { w.Models[full] = model }

func (w *World) specFunc(name string) *ssa.Function {
	if p := w.Pkgs["ion"]; p != nil {
		return p.Func(name)
	}
	return nil
}

func (w *World) clauseFunc(c *Contract, name string) *ssa.Function { return w.ClauseFn[name] }

// isSpecFunc reports whether fn is defined in a specification file (zz_verif_*).
func (w *World) isSpecFunc(fn *ssa.Function) bool {
	for fn.Parent() != nil {
		fn = fn.Parent()
	}
	if !fn.Pos().IsValid() {
		return false
	}
	f := w.Prog.Fset.Position(fn.Pos()).Filename
	return strings.HasPrefix(filepath.Base(f), "zz_verif_")
}

// FindFunc resolves a contract-file function id in a package.
func (w *World) FindFunc(pkg *ssa.Package, id string) *ssa.Function {
	if !strings.HasPrefix(id, "(") {
		return pkg.Func(id)
	}
	end := strings.Index(id, ").")
	if end < 0 {
		return nil
	}
	recv, name := id[1:end], id[end+2:]
	ptr := strings.HasPrefix(recv, "*")
	recv = strings.TrimPrefix(recv, "*")
	tm, ok := pkg.Members[recv].(*ssa.Type)
	if !ok {
		return nil
	}
	var t types.Type = tm.Type()
	if ptr {
		t = types.NewPointer(t)
	}
	sel := w.Prog.MethodSets.MethodSet(t).Lookup(pkg.Pkg, name)
	if sel == nil {
		return nil
	}
	fn := w.Prog.MethodValue(sel)
	// a method declared on T is reachable through *T by a wrapper: insist on the declared receiver
	if fn != nil && fn.Synthetic != "" {
		return nil
	}
	return fn
}
