package vc

import (
	"go/types"
	"strings"

	"golang.org/x/tools/go/ssa"
)

// Maps are modelled per map type as two-level heaps indexed by the map object and the
// key: a domain array (Bool) and one value array per value component.

func (x *Exec) mapKeySort(kt types.Type) string {
	if w, _, ok := intInfo(kt); ok {
		return bvSort(w)
	}
	if isString(kt) {
		x.g.Raw("sort:StrId", "(declare-sort StrId 0)")
		return "StrId"
	}
	if isBool(kt) {
		return SortBool
	}
	if pointerLike(kt) {
		return SortRef
	}
	if _, ok := kt.Underlying().(*types.Interface); ok {
		// interface keys (reflect.Type ...): identified by their reference
		return SortRef
	}
	unsup("map key type %s", kt)
	return ""
}

type strKeyRec struct {
	v  Val
	id string
}

func (x *Exec) mapKeyTerm(k Val, kt types.Type) string {
	if isString(kt) {
		fn := x.g.Fun("strid", []string{arrSort(SortBV64, SortBV8), SortBV64, SortBV64}, "StrId")
		id := x.g.Fresh("StrId", "("+fn+" "+strings.Join(k.C, " ")+")")
		if !x.g.InQuant() {
			for _, prev := range x.strKeys {
				if prev.id == id {
					continue
				}
				e := x.strEq(prev.v, k)
				x.g.Assume("(= (= " + prev.id + " " + id + ") " + e + ")")
			}
			x.strKeys = append(x.strKeys, strKeyRec{k, id})
		}
		return id
	}
	if _, ok := kt.Underlying().(*types.Interface); ok {
		return k.C[1]
	}
	return k.C[0]
}

func mapHeapKey(mt types.Type) string { return "map:" + typeKey(mt.Underlying()) }

func (f *frame) initMap(n *node, ref string, mt types.Type) {
	x := f.x
	m := mt.Underlying().(*types.Map)
	ks := x.mapKeySort(m.Key())
	k := mapHeapKey(mt) + ".dom"
	arr := x.hget(n.heap, k, SortBool, ks)
	x.hset(n.heap, k, SortBool, ks, x.g.Fresh(heapArraySort(SortBool, ks), "(store "+arr+" "+ref+" ((as const "+arrSort(ks, SortBool)+") false))"), ref)
	for _, ep := range f.activeEpochs(n) {
		ep.written[k] = true
	}
}

func (f *frame) mapUpdate(n *node, in *ssa.MapUpdate) {
	x := f.x
	g := x.g
	mv := f.lookup(n, in.Map)
	mt := in.Map.Type()
	m := mt.Underlying().(*types.Map)
	x.safety(f, n, "nilmap", describe(in.Map), not(eq(mv.C[0], NilRef)), in.Pos())
	ks := x.mapKeySort(m.Key())
	kt := x.mapKeyTerm(f.lookup(n, in.Key), m.Key())
	val := x.coerce(f.lookup(n, in.Value), m.Elem())
	base := mapHeapKey(mt)
	eps := f.activeEpochs(n)
	set := func(key, sort, v string) {
		arr := x.hget(n.heap, key, sort, ks)
		inner := "(store (select " + arr + " " + mv.C[0] + ") " + kt + " " + v + ")"
		x.hset(n.heap, key, sort, ks, g.Fresh(heapArraySort(sort, ks), "(store "+arr+" "+mv.C[0]+" "+inner+")"), mv.C[0])
		for _, ep := range eps {
			ep.written[key] = true
		}
	}
	set(base+".dom", SortBool, "true")
	for i, c := range x.comps(m.Elem()) {
		set(base+".val"+c.suffix, c.sort, val.C[i])
	}
}

func (f *frame) mapDelete(n *node, in *ssa.Call) {
	x := f.x
	mv := f.lookup(n, in.Call.Args[0])
	mt := in.Call.Args[0].Type()
	m := mt.Underlying().(*types.Map)
	ks := x.mapKeySort(m.Key())
	kt := x.mapKeyTerm(f.lookup(n, in.Call.Args[1]), m.Key())
	key := mapHeapKey(mt) + ".dom"
	arr := x.hget(n.heap, key, SortBool, ks)
	inner := "(store (select " + arr + " " + mv.C[0] + ") " + kt + " false)"
	x.hset(n.heap, key, SortBool, ks, x.g.Fresh(heapArraySort(SortBool, ks), "(store "+arr+" "+mv.C[0]+" "+inner+")"), mv.C[0])
	for _, ep := range f.activeEpochs(n) {
		ep.written[key] = true
	}
}

func (f *frame) lookupInstr(n *node, in *ssa.Lookup) bool {
	x := f.x
	g := x.g
	mv := f.lookup(n, in.X)
	mt := in.X.Type()
	m, ok := mt.Underlying().(*types.Map)
	if !ok {
		// string index
		idx := x.toInt64(f.lookup(n, in.Index))
		x.safety(f, n, "index", describe(in.X), "(bvult "+idx+" "+mv.C[2]+")", in.Pos())
		n.env[in] = Val{T: in.Type(), C: []string{g.Fresh(SortBV8, "(select "+mv.C[0]+" (bvadd "+mv.C[1]+" "+idx+"))")}}
		return true
	}
	h := f.heapFor(n, mv)
	ks := x.mapKeySort(m.Key())
	kt := x.mapKeyTerm(f.lookup(n, in.Index), m.Key())
	base := mapHeapKey(mt)
	dom := x.hget(h, base+".dom", SortBool, ks)
	okT := g.Fresh(SortBool, and(not(eq(mv.C[0], NilRef)), "(select (select "+dom+" "+mv.C[0]+") "+kt+")"))
	z := x.zero(m.Elem())
	r := Val{T: m.Elem(), Old: mv.Old}
	for i, c := range x.comps(m.Elem()) {
		arr := x.hget(h, base+".val"+c.suffix, c.sort, ks)
		r.C = append(r.C, g.Fresh(c.sort, ite(okT, "(select (select "+arr+" "+mv.C[0]+") "+kt+")", z.C[i])))
	}
	if !g.InQuant() {
		x.assumeWellFormed(r, n.reach)
	}
	if in.CommaOk {
		n.env[in] = Val{T: in.Type(), Sub: []Val{r, {T: types.Typ[types.Bool], C: []string{okT}}}}
	} else {
		n.env[in] = r
	}
	return true
}

func (f *frame) mapLen(n *node, mv Val, mt types.Type) string {
	x := f.x
	m := mt.Underlying().(*types.Map)
	ks := x.mapKeySort(m.Key())
	dom := x.hget(f.heapFor(n, mv), mapHeapKey(mt)+".dom", SortBool, ks)
	fn := x.g.Fun("maplen:"+ks, []string{arrSort(ks, SortBool)}, SortBV64)
	l := x.g.Fresh(SortBV64, "("+fn+" (select "+dom+" "+mv.C[0]+"))")
	x.g.Assume("(bvult " + l + " #x4000000000000000)")
	return l
}

func (f *frame) rangeInit(n *node, in *ssa.Range) Val {
	unsup("range over %s", in.X.Type())
	return Val{}
}

func (f *frame) rangeNext(n *node, in *ssa.Next) Val {
	unsup("range iteration")
	return Val{}
}
