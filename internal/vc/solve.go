package vc

import (
	"bytes"
	"context"
	"crypto/sha256"
	"encoding/hex"
	"encoding/json"
	"fmt"
	"os"
	"os/exec"
	"path/filepath"
	"runtime"
	"sort"
	"strings"
	"sync"
	"sync/atomic"
	"time"
)

type OblResult struct {
	Obl    *Obligation
	Status string // unsat sat unknown timeout error
	Solver string
	Time   float64
	Model  map[string]string // input component -> value (sat only)
	Raw    string
	Cached bool
}

// OK reports whether the obligation is discharged (or, for a cover, witnessed).
// lastResortUsed counts the goals of this process that took the last, longest solver round.
var lastResortUsed int32

const lastResortMax = 6

// loadFactor: how many runnable processes there are per core (1-minute load average over the
// core count), between 1 and 4. Short wall-clock solver limits are stretched by it.
func loadFactor() float64 {
	b, err := os.ReadFile("/proc/loadavg")
	if err != nil {
		return 1
	}
	var l1 float64
	if _, err := fmt.Sscanf(string(b), "%f", &l1); err != nil {
		return 1
	}
	f := l1 / float64(runtime.NumCPU())
	if f < 1 {
		return 1
	}
	if f > 4 {
		return 4
	}
	return f
}

// overloaded reports whether the machine runs clearly more than one process per core
// (1-minute load average above 1.25 times the core count): the only situation in which the
// last solver round is used.
func overloaded() bool {
	b, err := os.ReadFile("/proc/loadavg")
	if err != nil {
		return false
	}
	var l1 float64
	if _, err := fmt.Sscanf(string(b), "%f", &l1); err != nil {
		return false
	}
	return l1 > 1.25*float64(runtime.NumCPU())
}

func (r *OblResult) OK() bool {
	if r.Obl.Cover {
		return r.Status == "sat" || r.Status == "unknown" || r.Status == "timeout"
	}
	return r.Status == "unsat"
}

type SolveOpts struct {
	TimeoutS  int    // per obligation
	CacheDir  string // "" = no cache
	TmpDir    string
	Sem       chan struct{} // global concurrency limiter
	TwoSolver bool
	// SlowHints: obligations known to need more than the first round's budget on an idle
	// machine (name -> seconds); their first round gets that budget, so that machine load does
	// not turn a slow true goal into a timeout. Read from /verif/slow_hints.json.
	SlowHints map[string]int
}

// LoadSlowHints reads the committed list of slow obligations (missing file: none).
func LoadSlowHints(path string) map[string]int {
	b, err := os.ReadFile(path)
	if err != nil {
		return nil
	}
	var m map[string]int
	if json.Unmarshal(b, &m) != nil {
		return nil
	}
	return m
}

func (o *SolveOpts) acquire() { o.Sem <- struct{}{} }
func (o *SolveOpts) release() { <-o.Sem }

func hashOf(parts ...string) string {
	h := sha256.New()
	for _, p := range parts {
		h.Write([]byte(p))
		h.Write([]byte{0})
	}
	return hex.EncodeToString(h.Sum(nil))[:32]
}

type solverSpec struct {
	name string
	args func(file string, timeout int) []string
}

var solvers = []solverSpec{
	{"z3-new", func(f string, t int) []string { return []string{"z3-new", fmt.Sprintf("-T:%d", t), f} }},
	{"cvc5", func(f string, t int) []string {
		return []string{"cvc5", "--produce-models", fmt.Sprintf("--tlimit=%d", t*1000), f}
	}},
	{"z3", func(f string, t int) []string { return []string{"z3", fmt.Sprintf("-T:%d", t), f} }},
	// enumerative quantifier instantiation: decides goals whose proof needs an assumed
	// universally quantified invariant instantiated at a Skolem term that E-matching misses
	{"cvc5-enum", func(f string, t int) []string {
		return []string{"cvc5", "--produce-models", "--enum-inst", fmt.Sprintf("--tlimit=%d", t*1000), f}
	}},
}

// solversFor returns the portfolio for a query: the enumerative configuration only runs
// on quantified queries.
func solversFor(query string) []solverSpec {
	if strings.Contains(query, "(forall") {
		return solvers
	}
	return solvers[:3]
}

func runSolver(ctx context.Context, s solverSpec, file string, timeout int) (status, raw string, dur float64) {
	t0 := time.Now()
	a := s.args(file, timeout)
	cctx, cancel := context.WithTimeout(ctx, time.Duration(timeout+2)*time.Second)
	defer cancel()
	cmd := exec.CommandContext(cctx, a[0], a[1:]...)
	var out bytes.Buffer
	cmd.Stdout = &out
	cmd.Stderr = &out
	cmd.Run()
	dur = time.Since(t0).Seconds()
	raw = out.String()
	first := strings.TrimSpace(strings.SplitN(raw, "\n", 2)[0])
	switch first {
	case "unsat", "sat", "unknown":
		return first, raw, dur
	case "timeout":
		return "timeout", raw, dur
	}
	if cctx.Err() != nil || strings.Contains(raw, "timeout") || strings.Contains(raw, "interrupted") {
		return "timeout", raw, dur
	}
	return "error", raw, dur
}

// inputNames lists the SMT constants of the scalar components of the inputs.
func inputNames(tr *TargetResult) []string {
	var out []string
	for _, in := range tr.Inputs {
		var walk func(v Val)
		walk = func(v Val) {
			for _, c := range v.C {
				if strings.HasPrefix(c, "|") {
					out = append(out, c)
				}
			}
			for _, s := range v.Sub {
				walk(s)
			}
		}
		walk(in.Val)
	}
	return out
}

// Solve discharges the obligations of one target: first one incremental z3-new run
// over all of them, then the portfolio for whatever is left.
func Solve(tr *TargetResult, opts *SolveOpts) []*OblResult {
	results := make([]*OblResult, len(tr.Obls))
	if len(tr.Obls) == 0 {
		return results
	}
	os.MkdirAll(opts.TmpDir, 0o755)
	base := tr.Script
	var pending []int
	for i, o := range tr.Obls {
		results[i] = &OblResult{Obl: o, Status: "unknown"}
		if opts.CacheDir != "" {
			if data, err := os.ReadFile(filepath.Join(opts.CacheDir, tr.KeyFor(o.Cond))); err == nil {
				parts := strings.Fields(string(data))
				if len(parts) >= 2 && ((parts[0] == "unsat" && !o.Cover) || (o.Cover && (parts[0] == "sat" || parts[0] == "unknown"))) {
					results[i].Status, results[i].Solver, results[i].Cached = parts[0], parts[1], true
					continue
				}
			}
		}
		pending = append(pending, i)
	}
	if len(pending) == 0 {
		return results
	}
	if opts.CacheDir != "" {
		first := append([]int{}, pending...)
		defer func() {
			os.MkdirAll(opts.CacheDir, 0o755)
			for _, i := range first {
				r := results[i]
				if r.Obl.Cover && r.Status == "timeout" {
					r.Status = "unknown"
				}
				if (r.Status == "unsat" && !r.Obl.Cover) || (r.Obl.Cover && (r.Status == "sat" || r.Status == "unknown")) {
					os.WriteFile(filepath.Join(opts.CacheDir, tr.KeyFor(r.Obl.Cond)), []byte(r.Status+" "+r.Solver+"\n"), 0o644)
				}
			}
		}()
	}
	tag := hashOf(tr.Name, base)[:12]
	// phase 0: one incremental z3-new process over all pending obligations (push/assert/check/pop)
	// with a short per-query limit: the many trivial goals (nil checks, bounds of constant
	// indices) are answered in milliseconds each without starting a process per goal.
	if len(pending) > 3 {
		pending = phase0(tr, opts, results, pending, tag)
		if len(pending) == 0 {
			return results
		}
	}
	// phase 1: every obligation on its own with z3-new and a short timeout, in parallel
	batchT := 4
	if opts.TimeoutS < batchT {
		batchT = opts.TimeoutS
	}
	batchT = int(float64(batchT)*loadFactor() + 0.5)
	var rest []int
	var restMu sync.Mutex
	var cwg sync.WaitGroup
	for _, i := range pending {
		cwg.Add(1)
		go func(i int) {
			defer cwg.Done()
			opts.acquire()
			defer opts.release()
			file := filepath.Join(opts.TmpDir, fmt.Sprintf("p_%s_%d.smt2", tag, i))
			os.WriteFile(file, []byte(tr.ScriptFor(tr.Obls[i].Cond)+"(assert "+tr.Obls[i].Cond+")\n(check-sat)\n"), 0o644)
			defer os.Remove(file)
			bt := batchT
			if tr.Obls[i].Cover && bt > 2 {
				bt = 2 // a vacuity probe: only a quick `unsat` (no execution satisfies the contract) matters
			}
			st, raw, d := runSolver(context.Background(), solvers[0], file, bt)
			results[i].Status, results[i].Solver, results[i].Time, results[i].Raw = st, "z3-new", d, firstLines(raw, 2)
			if tr.Obls[i].Cover && st != "unsat" {
				return // witnessed (sat) or not refuted within the probe's budget
			}
			if !results[i].OK() || st == "sat" && !tr.Obls[i].Cover {
				restMu.Lock()
				rest = append(rest, i)
				restMu.Unlock()
			}
		}(i)
	}
	cwg.Wait()
	sort.Ints(rest)
	// phase 2: portfolio, one obligation at a time, in parallel
	var wg sync.WaitGroup
	allNames := inputNames(tr)
	for _, i := range rest {
		i := i
		wg.Add(1)
		go func() {
			defer wg.Done()
			o := tr.Obls[i]
			r := results[i]
			var q strings.Builder
			base := tr.ScriptFor(o.Cond)
			q.WriteString(base)
			fmt.Fprintf(&q, "(assert %s)\n(check-sat)\n", o.Cond)
			var names []string
			for _, n := range allNames {
				if strings.Contains(base, "(declare-const "+n+" ") {
					names = append(names, n)
				}
			}
			if len(names) > 0 {
				fmt.Fprintf(&q, "(get-value (%s))\n", strings.Join(names, " "))
			}
			qf := filepath.Join(opts.TmpDir, fmt.Sprintf("q_%s_%d.smt2", tag, i))
			os.WriteFile(qf, []byte(q.String()), 0o644)
			defer os.Remove(qf)
			ctx, cancel := context.WithCancel(context.Background())
			defer cancel()
			type ans struct {
				status, raw, solver string
				dur                 float64
			}
			best := ans{status: "unknown"}
			var raws []string
			// A timeout is retried once with four times the budget: by then the fast
			// obligations have left the machine, so a goal that is merely slow under load is
			// still discharged; only a goal no solver decides in that time stays undischarged.
			// A goal that still times out gets a last attempt with sixteen times the budget, for
			// the case that the whole machine is overloaded by other processes (several checks
			// started at once). At most lastResortMax goals per run take it, so a change that
			// makes many goals undecidable does not hold the check up for long.
			budgets := []int{opts.TimeoutS, 4 * opts.TimeoutS, 16 * opts.TimeoutS}
			if h := opts.SlowHints[o.Name]; h > budgets[0] {
				budgets[0] = h
				if budgets[1] < h {
					budgets[1] = h
				}
			}
			if o.Cover {
				budgets = budgets[:1]
			}
			for round, budget := range budgets {
				if round > 0 && best.status != "timeout" && best.status != "unknown" {
					break
				}
				if round == 2 && (!overloaded() || atomic.AddInt32(&lastResortUsed, 1) > lastResortMax) {
					break
				}
				port := solversFor(base)
				ch := make(chan ans, len(port))
				for _, s := range port {
					s := s
					go func() {
						opts.acquire()
						defer opts.release()
						if ctx.Err() != nil {
							ch <- ans{"timeout", "", s.name, 0}
							return
						}
						st, raw, d := runSolver(ctx, s, qf, budget)
						ch <- ans{st, raw, s.name, d}
					}()
				}
				for k := 0; k < len(port); k++ {
					a := <-ch
					raws = append(raws, fmt.Sprintf("[%s %.1fs] %s", a.solver, a.dur, firstLines(a.raw, 3)))
					if a.status == "unsat" {
						best = a
						cancel()
						break
					}
					if a.status == "sat" && best.status != "sat" {
						best = a
						if o.Cover {
							cancel()
							break
						}
						// a sat answer from one solver on a quantifier-free query is final
						if !strings.Contains(base, "(forall") {
							cancel()
							break
						}
					}
					if best.status == "unknown" && a.status == "timeout" {
						best = a
					}
					if best.status == "unknown" && a.status == "error" && best.solver == "" {
						best = a
					}
				}
			}
			r.Status, r.Solver, r.Time = best.status, best.solver, best.dur
			r.Raw = strings.Join(raws, "\n")
			if best.status == "sat" {
				r.Model = parseValues(best.raw)
				// prefer a counterexample with short slices: it can be replayed on the real code
				var small []string
				for _, n := range names {
					if strings.Contains(n, ".len!") {
						small = append(small, "(assert (bvule "+n+" (_ bv16 64)))\n")
					}
				}
				if len(small) > 0 && !o.Cover {
					sf := filepath.Join(opts.TmpDir, fmt.Sprintf("s_%s_%d.smt2", tag, i))
					os.WriteFile(sf, []byte(base+strings.Join(small, "")+q.String()[len(base):]), 0o644)
					for _, s := range solvers[:2] {
						opts.acquire()
						st, raw, _ := runSolver(context.Background(), s, sf, 5)
						opts.release()
						if st == "sat" {
							if m := parseValues(raw); len(m) > 0 {
								r.Model = m
								r.Raw += "\n[" + s.name + ", slices of at most 16 elements] " + firstLines(raw, 3)
								break
							}
						}
					}
					os.Remove(sf)
				}
			}
		}()
	}
	wg.Wait()
	return results
}

func firstLines(s string, n int) string {
	ls := strings.Split(strings.TrimSpace(s), "\n")
	if len(ls) > n {
		ls = ls[:n]
	}
	return strings.Join(ls, " | ")
}

// parseValues parses the answer of (get-value (...)): ((name value) ...).
func parseValues(raw string) map[string]string {
	m := map[string]string{}
	idx := strings.Index(raw, "((")
	if idx < 0 {
		return m
	}
	s := raw[idx+1:]
	// tokenise pairs "(name value)"
	depth := 0
	start := -1
	inbar := false
	for i := 0; i < len(s); i++ {
		c := s[i]
		if c == '|' {
			inbar = !inbar
		}
		if inbar {
			continue
		}
		if c == '(' {
			if depth == 0 {
				start = i
			}
			depth++
		} else if c == ')' {
			depth--
			if depth == 0 && start >= 0 {
				pair := s[start+1 : i]
				var name, val string
				if strings.HasPrefix(pair, "|") {
					e := strings.Index(pair[1:], "|")
					name = pair[:e+2]
					val = strings.TrimSpace(pair[e+2:])
				} else {
					sp := strings.SplitN(pair, " ", 2)
					name = sp[0]
					if len(sp) > 1 {
						val = strings.TrimSpace(sp[1])
					}
				}
				m[name] = val
				start = -1
			}
			if depth < 0 {
				break
			}
		}
	}
	return m
}

// CrossCheck (thorough tier) puts every discharged obligation to the solvers that did
// not discharge it. It returns how many obligations a second, independent solver also
// found unsat, how many no second solver decided within the budget, and the names of
// the obligations on which a second solver answered sat on a quantifier-free query
// (a solver disagreement: the proof is not believed).
func CrossCheck(tr *TargetResult, results []*OblResult, opts *SolveOpts, budget int) (agreed, undecided int, conflicts []string) {
	type out struct {
		agreed   bool
		conflict string
	}
	outs := make([]out, len(results))
	var wg sync.WaitGroup
	tag := hashOf(tr.Name, tr.Script)[:12]
	qf := !strings.Contains(tr.Script, "(forall")
	for i, r := range results {
		if r == nil || r.Obl.Cover || r.Status != "unsat" {
			continue
		}
		i, r := i, r
		wg.Add(1)
		go func() {
			defer wg.Done()
			file := filepath.Join(opts.TmpDir, fmt.Sprintf("x_%s_%d.smt2", tag, i))
			os.WriteFile(file, []byte(tr.ScriptFor(r.Obl.Cond)+"(assert "+r.Obl.Cond+")\n(check-sat)\n"), 0o644)
			defer os.Remove(file)
			for _, s := range solversFor(tr.ScriptFor(r.Obl.Cond)) {
				if s.name == r.Solver || outs[i].agreed || (strings.HasPrefix(s.name, "cvc5") && strings.HasPrefix(r.Solver, "cvc5")) {
					continue
				}
				opts.acquire()
				st, _, _ := runSolver(context.Background(), s, file, budget)
				opts.release()
				if st == "unsat" {
					outs[i].agreed = true
				} else if st == "sat" && qf && !strings.Contains(r.Obl.Cond, "(forall") {
					outs[i].conflict = fmt.Sprintf("%s: %s says unsat, %s says sat", r.Obl.Name, r.Solver, s.name)
				}
			}
		}()
	}
	wg.Wait()
	for i, r := range results {
		if r == nil || r.Obl.Cover || r.Status != "unsat" {
			continue
		}
		switch {
		case outs[i].conflict != "":
			conflicts = append(conflicts, outs[i].conflict)
		case outs[i].agreed:
			agreed++
		default:
			undecided++
		}
	}
	return
}

// phase0 runs incremental solver processes over the pending obligations (in parallel
// chunks, each under a short global limit) and returns the indices it did not settle. Only
// definite answers count: unsat for a proof obligation, sat for a cover; everything else
// is left to the per-obligation phases.
func phase0(tr *TargetResult, opts *SolveOpts, results []*OblResult, pending []int, tag string) []int {
	const chunk = 48
	var mu sync.Mutex
	var rest []int
	var wg sync.WaitGroup
	for start := 0; start < len(pending); start += chunk {
		end := start + chunk
		if end > len(pending) {
			end = len(pending)
		}
		part := pending[start:end]
		start := start
		wg.Add(1)
		go func() {
			defer wg.Done()
			var q strings.Builder
			// the per-goal limit is wall-clock time: on an oversubscribed machine it is stretched
			// by the load factor, so that the cheap goals still finish here instead of falling
			// through to a solver process of their own
			fmt.Fprintf(&q, "(set-option :timeout %d)\n", int(400*loadFactor()))
			q.WriteString(tr.Script)
			// Every goal is checked under an assumption literal (no push/pop: a goal can leave
			// nothing behind, whatever happens to the query before or after it), and announced
			// by an echo so that each answer is attributed by name, not by position.
			for k, i := range part {
				fmt.Fprintf(&q, "(define-fun goal!%d () Bool %s)\n(echo \"@goal %d\")\n(check-sat-assuming (goal!%d))\n", k, tr.Obls[i].Cond, k, k)
			}
			file := filepath.Join(opts.TmpDir, fmt.Sprintf("i_%s_%d.smt2", tag, start))
			os.WriteFile(file, []byte(q.String()), 0o644)
			opts.acquire()
			t0 := time.Now()
			cctx, cancel := context.WithTimeout(context.Background(), 12*time.Second)
			cmd := exec.CommandContext(cctx, "z3-new", file)
			var out bytes.Buffer
			cmd.Stdout = &out
			cmd.Stderr = &out
			cmd.Run()
			cancel()
			opts.release()
			if d := os.Getenv("IONVC_KEEP0"); d != "" {
				os.MkdirAll(d, 0o755)
				os.WriteFile(filepath.Join(d, filepath.Base(file)+".out"), out.Bytes(), 0o644)
				os.Rename(file, filepath.Join(d, filepath.Base(file)))
			}
			os.Remove(file)
			dur := time.Since(t0).Seconds()
			answers := map[int]string{}
			cur, broken := -1, false
			for _, ln := range strings.Split(out.String(), "\n") {
				ln = strings.TrimSpace(ln)
				switch {
				case strings.HasPrefix(ln, "@goal "), strings.HasPrefix(ln, "\"@goal "):
					cur = -1
					fmt.Sscanf(strings.Trim(ln, "\""), "@goal %d", &cur)
				case ln == "unsat" || ln == "sat" || ln == "unknown":
					if cur >= 0 {
						if _, dup := answers[cur]; dup {
							broken = true
						}
						answers[cur] = ln
					} else {
						broken = true
					}
					cur = -1
				case ln != "":
					// an error or anything unexpected: nothing this process said is used
					broken = true
				}
			}
			if broken {
				answers = map[int]string{}
			}
			var mine []int
			for k, i := range part {
				if a, ok := answers[k]; ok {
					o := tr.Obls[i]
					if (a == "unsat" && !o.Cover) || (a == "sat" && o.Cover) {
						results[i].Status, results[i].Solver, results[i].Time, results[i].Raw = a, "z3-new", dur/float64(len(part)), "incremental"
						continue
					}
				}
				mine = append(mine, i)
			}
			mu.Lock()
			rest = append(rest, mine...)
			mu.Unlock()
		}()
	}
	wg.Wait()
	sort.Ints(rest)
	return rest
}
