package vc

import (
	"fmt"
	"go/ast"
	"go/constant"
	"go/token"
	"go/types"
	"os"
	"sort"
	"strings"

	"golang.org/x/tools/go/ssa"
)

// Obligation is one proof obligation: Cond must be unsatisfiable together with the
// assumptions of the function's script.
type Obligation struct {
	Name   string
	Kind   string // post pre safe unwind inv-entry inv-step frame lemma cover
	Props  []string
	Cond   string
	Func   string
	Pos    token.Position
	Detail string
	Cover  bool    // must be SAT (vacuity probe)
	Clause *Clause // post: the ensures clause this obligation proves
	Group  string  // obligations that together prove one clause share a group (vacuity lock counts groups)
	// model extraction: named inputs of the function under verification
}

// Exec is the symbolic execution of one verification target.
type Exec struct {
	specReach  string
	goalReach  string
	atCallSeen map[*Clause]int
	revealAll  bool
	g          *Gen
	w          *World
	obls       []*Obligation
	allocN     uint32
	epochN     int
	epochs     []*epoch
	compCache  map[types.Type][]comp
	tags       map[string]uint32
	tagTypes   map[uint32]types.Type
	oblCount   map[string]int
	specDepth  int
	oldHeaps   []*Heap
	stack      []*ssa.Function
	notes      map[string]bool
	// safety obligations are generated with these property ids ("" = none)
	safeProps   []string
	safeOn      bool
	target      string
	globalsInit map[string]string
	inputs      []InputVar
	budget      int
	callDepth   int
	modCollect  *[]modLoc
	strIDs      map[string]string
	strKeys     []strKeyRec
	freshBase   []uint32
	sentinels   map[string]uint32
	cells       map[string]*cellMeta
	ctr         *Contract
	tolerant    bool
	noInline    bool
	allocBound  func(f *frame, n *node, in *ssa.MakeSlice, ln string)
	// skolemNext, when set, makes the next vcForall evaluated bind its variable to a fresh
	// constant instead of a quantifier. Only Verify sets it, only for an ensures clause that
	// is itself the forall (positive position), where proving it for an arbitrary constant
	// is the same as proving the quantified formula.
	skolemNext  *skolem
	noFork      bool
	frameSuffix string
	nextPC      int
	writeLog    []writeRec
	lastObl     *Obligation
	pathMode    bool // `split returns`: joins are not merged (bounded), see execNode
	// nonNil holds the terms `(not (= p nil))` of pointers assumed non-nil on entry
	nonNil map[string]bool
}

type skolem struct {
	name string // SMT constant
	sort string
	v    Val
}

type cellMeta struct {
	v      Val
	stores int
}

type InputVar struct {
	Name string
	Val  Val
}

type modLoc struct {
	ptr   Val
	elems bool
	isMap bool
}

func (x *Exec) allocLimit() uint32 { return AllocBase + x.allocN }

func (x *Exec) note(format string, args ...interface{}) {
	x.notes[fmt.Sprintf(format, args...)] = true
}

func (x *Exec) newRef() string {
	r := refLit(AllocBase + x.allocN)
	x.allocN++
	return r
}

func (x *Exec) inSpec() bool { return x.specDepth > 0 || x.g.InQuant() }

// oblige records an obligation: "cond can happen" must be refuted.
func (x *Exec) oblige(kind, detail string, props []string, cond string, fn *ssa.Function, pos token.Pos) {
	if cond == "false" {
		x.lastObl = &Obligation{} // trivially discharged: not recorded
		return
	}
	base := fmt.Sprintf("%s:%s:%s", x.target, kind, detail)
	n := x.oblCount[base]
	x.oblCount[base] = n + 1
	o := &Obligation{Name: fmt.Sprintf("%s#%d", base, n), Kind: kind, Props: props, Cond: cond, Func: x.target, Detail: detail}
	if fn != nil && pos.IsValid() {
		o.Pos = fn.Prog.Fset.Position(pos)
	}
	x.obls = append(x.obls, o)
	x.lastObl = o
}

// safety records a safety obligation for a step that panics unless ok holds, and
// narrows the path condition: execution continues only when ok holds.
func (x *Exec) safety(f *frame, n *node, kind, detail, ok string, pos token.Pos) {
	if x.inSpec() || f.spec {
		return
	}
	if ok == "true" {
		return
	}
	if kind == "nil" && x.nonNil[ok] {
		return // the pointer is one the contract assumes non-nil (the method receiver)
	}
	if x.safeOn {
		x.oblige("safe", kind+":"+detail, x.safeProps, and(n.reach, not(ok)), f.fn, pos)
	}
	n.reach = x.g.Fresh(SortBool, and(n.reach, ok))
}

// ---------------------------------------------------------------------------
// frames and the unfolded DAG

type loopInfo struct {
	header  *ssa.BasicBlock
	body    map[*ssa.BasicBlock]bool
	ordinal int
	unroll  int // >0: unroll bound; 0: cut with invariant
	invs    []*Clause
}

type nodeKey struct {
	blk int
	ctx string
}

type inEdge struct {
	from     *node
	succIdx  int // index in from.blk.Succs
	cond     string
	predSlot int // index in blk.Preds this edge corresponds to
}

type node struct {
	key    nodeKey
	blk    *ssa.BasicBlock
	ctx    map[int]int
	in     []inEdge
	reach  string
	env    map[ssa.Value]Val
	heap   *Heap // heap at block exit
	edges  []string
	done   bool
	cutHdr *loopInfo // this node is the header of a cut loop
	epochs []*epoch
	// lookups memo
	memo map[ssa.Value]*Val
	// variants: when an inlined callee returns along several paths, the rest of the block
	// is executed once per return (path-sensitive), each time on a clone of the node
	clones  []*node
	primary *node
	// facts: branch conditions (atoms) decided on every path to this node; branch: the
	// condition of the If that ends the block
	facts  map[string]bool
	branch string
	pc     int // path context (0 = the initial one)
}

// factsAlong returns the facts that hold after leaving `from` along successor succIdx.
func (f *frame) factsAlong(from *node, succIdx int) map[string]bool {
	m := make(map[string]bool, len(from.facts)+1)
	for k, v := range from.facts {
		m[k] = v
	}
	if from.branch != "" && from.branch != "true" && from.branch != "false" && len(from.blk.Succs) == 2 {
		a, neg := f.x.g.Atom(from.branch)
		// successor 0 is taken when the condition holds
		m[a] = (succIdx == 0) != neg
	}
	return m
}

func intersectFacts(a, b map[string]bool) map[string]bool {
	m := map[string]bool{}
	for k, v := range a {
		if w, ok := b[k]; ok && w == v {
			m[k] = v
		}
	}
	return m
}

// fork returns a clone of n that continues the current block with its own state.
func (n *node) fork() *node {
	p := n
	if n.primary != nil {
		p = n.primary
	}
	c := &node{key: n.key, blk: n.blk, ctx: n.ctx, in: n.in, reach: n.reach, env: make(map[ssa.Value]Val, len(n.env)+8), heap: n.heap,
		cutHdr: nil, epochs: n.epochs, memo: map[ssa.Value]*Val{}, primary: p, facts: n.facts, pc: n.pc}
	for k, v := range n.env {
		c.env[k] = v
	}
	p.clones = append(p.clones, c)
	return c
}

// variants lists n and its clones.
func (n *node) variants() []*node {
	return append([]*node{n}, n.clones...)
}

type frame struct {
	x      *Exec
	fn     *ssa.Function
	ctr    *Contract
	args   []Val
	spec   bool
	loops  []*loopInfo
	inLoop map[*ssa.BasicBlock][]*loopInfo // loops containing the block (outermost first)
	hdr    map[*ssa.BasicBlock]*loopInfo
	nodes  map[nodeKey]*node
	// results
	rets      []retInfo
	names     map[string][]ssa.Value
	entryHeap *Heap
	outer     []*epoch // epochs active at the call site (for writes inside inlined callees)
	paramVals map[*ssa.Parameter]Val
	freeVals  map[*ssa.FreeVar]Val
	keepCtx   bool
	// forks created by the instruction being executed: clones that continue after it
	forks     []*node
	curCall   *ssa.Call
	nVariants int
	// facts known at the call site of an inlined callee
	entryFacts map[string]bool
}

type retInfo struct {
	reach string
	val   Val
	heap  *Heap
	facts map[string]bool
	pos   token.Pos
}

func (f *frame) analyseLoops() {
	fn := f.fn
	f.inLoop = map[*ssa.BasicBlock][]*loopInfo{}
	f.hdr = map[*ssa.BasicBlock]*loopInfo{}
	for _, u := range fn.Blocks {
		for _, h := range u.Succs {
			if !h.Dominates(u) {
				continue
			}
			li := f.hdr[h]
			if li == nil {
				li = &loopInfo{header: h, body: map[*ssa.BasicBlock]bool{h: true}}
				f.hdr[h] = li
				f.loops = append(f.loops, li)
			}
			var stack []*ssa.BasicBlock
			if !li.body[u] {
				li.body[u] = true
				stack = append(stack, u)
			}
			for len(stack) > 0 {
				b := stack[len(stack)-1]
				stack = stack[:len(stack)-1]
				for _, p := range b.Preds {
					if !li.body[p] {
						li.body[p] = true
						stack = append(stack, p)
					}
				}
			}
		}
	}
	sort.Slice(f.loops, func(i, j int) bool { return f.loops[i].header.Index < f.loops[j].header.Index })
	for i, li := range f.loops {
		li.ordinal = i
		if f.ctr != nil {
			if n, ok := f.ctr.Unroll[i]; ok {
				li.unroll = n
			}
			li.invs = f.ctr.Invariant[i]
		}
		if f.spec && li.unroll == 0 && len(li.invs) == 0 {
			li.unroll = 16
		}
	}
	for _, b := range fn.Blocks {
		for _, li := range f.loops { // header order = outermost first for nested loops
			if li.body[b] {
				f.inLoop[b] = append(f.inLoop[b], li)
			}
		}
	}
}

func fmtCtx(m map[int]int) string {
	if len(m) == 0 {
		return ""
	}
	var ks []int
	for k := range m {
		ks = append(ks, k)
	}
	sort.Ints(ks)
	var ps []string
	for _, k := range ks {
		ps = append(ps, fmt.Sprintf("%d:%d", k, m[k]))
	}
	return strings.Join(ps, ",")
}

type cutEdge struct {
	from    *node
	succIdx int
	li      *loopInfo
	unwind  bool
}

// run executes the function body symbolically.
func (f *frame) run(entryReach string, heap *Heap) {
	x := f.x
	fn := f.fn
	if len(fn.Blocks) == 0 {
		unsup("function %s has no body", fn)
	}
	f.analyseLoops()
	f.nodes = map[nodeKey]*node{}
	f.names = map[string][]ssa.Value{}
	f.entryHeap = heap
	for _, b := range fn.Blocks {
		for _, ins := range b.Instrs {
			if d, ok := ins.(*ssa.DebugRef); ok && !d.IsAddr {
				if id, ok := d.Expr.(*ast.Ident); ok {
					if _, isConst := d.X.(*ssa.Const); isConst && x.w.DefPos[id.Pos()] {
						continue // the declaration's reference holds the stale zero value
					}
					f.names[id.Name] = append(f.names[id.Name], d.X)
				}
			}
		}
	}

	// 1. build the unfolded DAG
	succs := map[*node][]*node{}
	indeg := map[*node]int{}
	var cuts []cutEdge
	mk := func(b *ssa.BasicBlock, ctx map[int]int) (*node, bool) {
		k := nodeKey{b.Index, fmtCtx(ctx)}
		if n, ok := f.nodes[k]; ok {
			return n, false
		}
		n := &node{key: k, blk: b, ctx: ctx, env: map[ssa.Value]Val{}, memo: map[ssa.Value]*Val{}}
		f.nodes[k] = n
		return n, true
	}
	entry, _ := mk(fn.Blocks[0], map[int]int{})
	var build func(n *node)
	total := 0
	build = func(n *node) {
		total++
		if total > 6000 {
			unsup("unfolded control-flow graph of %s exceeds 6000 nodes", fn.Name())
		}
		for i, v := range n.blk.Succs {
			nctx := map[int]int{}
			if f.keepCtx {
				// `split returns`: the code after an unrolled loop is unfolded once per exit
				// iteration, so that every return statement is reached with concrete loop counts
				for k, c := range n.ctx {
					nctx[k] = c
				}
			}
			for _, li := range f.inLoop[v] {
				if li.unroll > 0 {
					if c, ok := n.ctx[li.header.Index]; ok {
						nctx[li.header.Index] = c
					}
				}
			}
			if li := f.hdr[v]; li != nil {
				back := li.body[n.blk] && v.Dominates(n.blk)
				if li.unroll > 0 {
					if back {
						c := n.ctx[v.Index] + 1
						if c > li.unroll {
							cuts = append(cuts, cutEdge{n, i, li, true})
							continue
						}
						nctx[v.Index] = c
					} else {
						nctx[v.Index] = 0
					}
				} else if back {
					cuts = append(cuts, cutEdge{n, i, li, false})
					continue
				}
			}
			m, isNew := mk(v, nctx)
			slot := -1
			// which predecessor slot of v is this edge? (a block may be reached twice from
			// the same predecessor: match by occurrence order)
			occ := 0
			for j := 0; j < i; j++ {
				if n.blk.Succs[j] == v {
					occ++
				}
			}
			for j, p := range v.Preds {
				if p == n.blk {
					if occ == 0 {
						slot = j
						break
					}
					occ--
				}
			}
			m.in = append(m.in, inEdge{from: n, succIdx: i, predSlot: slot})
			succs[n] = append(succs[n], m)
			indeg[m]++
			if isNew {
				if li := f.hdr[v]; li != nil && li.unroll == 0 {
					m.cutHdr = li
				}
				build(m)
			}
		}
	}
	if li := f.hdr[entry.blk]; li != nil && li.unroll == 0 {
		entry.cutHdr = li
	}
	build(entry)

	// 2. execute nodes in topological order
	queue := []*node{entry}
	for len(queue) > 0 {
		n := queue[0]
		queue = queue[1:]
		f.execNode(n, entry, entryReach, heap)
		n.done = true
		for _, s := range succs[n] {
			indeg[s]--
			if indeg[s] == 0 {
				queue = append(queue, s)
			}
		}
	}

	// 3. cut edges: unwinding assertions and invariant preservation
	for _, c0 := range cuts {
		for _, from := range c0.from.variants() {
			c := c0
			c.from = from
			if !c.from.done || c.succIdx >= len(c.from.edges) {
				continue
			}
			cond := c.from.edges[c.succIdx]
			if cond == "false" {
				continue
			}
			if c.unwind {
				if !f.spec && !x.inSpec() {
					x.oblige("unwind", fmt.Sprintf("loop%d>%d", c.li.ordinal, c.li.unroll), nil, cond, fn, c.li.header.Instrs[0].Pos())
				} else {
					x.note("specification loop in %s unrolled %d times", fn.Name(), c.li.unroll)
				}
				continue
			}
			f.checkInvariant(c.li, c.from, c.succIdx, cond, "inv-step")
		}
	}
}

// lookup returns the value of v as seen from node n.
func (f *frame) lookup(n *node, v ssa.Value) Val {
	switch c := v.(type) {
	case *ssa.Const:
		return f.x.constVal(c)
	case *ssa.Parameter:
		if pv, ok := f.paramVals[c]; ok {
			return pv
		}
		unsup("parameter %s of another function", c.Name())
	case *ssa.FreeVar:
		if pv, ok := f.freeVals[c]; ok {
			return pv
		}
		unsup("free variable %s unbound", c.Name())
	case *ssa.Global:
		return f.x.globalPtr(c)
	case *ssa.Function:
		return Val{T: c.Type(), C: []string{f.x.funcRef(c)}, Fn: c}
	case *ssa.Builtin:
		unsup("builtin %s used as a value", c.Name())
	}
	r, ok := f.find(n, v)
	if !ok {
		unsup("value %s (%s) not available in block %d of %s", v.Name(), v.String(), n.blk.Index, f.fn.Name())
	}
	return r
}

func (f *frame) find(n *node, v ssa.Value) (Val, bool) {
	if r, ok := n.env[v]; ok {
		return r, true
	}
	if m, ok := n.memo[v]; ok {
		if m == nil {
			return Val{}, false
		}
		return *m, true
	}
	n.memo[v] = nil
	if len(n.in) == 0 {
		return Val{}, false
	}
	var vals []Val
	for _, e := range n.in {
		r, ok := f.find(e.from, v)
		if !ok {
			return Val{}, false
		}
		vals = append(vals, r)
	}
	res := vals[len(vals)-1]
	allSame := true
	for _, r := range vals[1:] {
		if !sameVal(r, vals[0]) {
			allSame = false
		}
	}
	if allSame {
		res = vals[0]
	} else {
		for i := len(vals) - 2; i >= 0; i-- {
			res = f.x.iteVal(n.in[i].cond, vals[i], res)
		}
	}
	n.memo[v] = &res
	return res, true
}

// activeEpochs returns the havoc epochs a write at node n has to be recorded in.
func (f *frame) activeEpochs(n *node) []*epoch {
	return append(append([]*epoch{}, f.outer...), n.epochs...)
}

func (f *frame) execNode(n *node, entry *node, entryReach string, entryHeap *Heap) {
	x := f.x
	g := x.g
	// merge incoming edges
	var heap *Heap
	var extra []*node
	if n == entry && len(n.in) == 0 {
		n.reach = entryReach
		heap = entryHeap.clone()
		n.facts = f.entryFacts
	} else {
		var conds []string
		var hs []*Heap
		var live []inEdge
		var expanded []inEdge
		for _, e := range n.in {
			for _, v := range e.from.variants() {
				ne := e
				ne.from = v
				expanded = append(expanded, ne)
			}
		}
		for i := range expanded {
			e := &expanded[i]
			if !e.from.done || e.succIdx >= len(e.from.edges) {
				continue // predecessor ended in a panic / was never executed
			}
			e.cond = e.from.edges[e.succIdx]
			if e.cond == "false" {
				continue
			}
			conds = append(conds, e.cond)
			hs = append(hs, e.from.heap)
			live = append(live, *e)
		}
		n.in = live
		if len(live) == 0 {
			n.reach = "false"
			n.heap = entryHeap.clone()
			n.edges = make([]string, len(n.blk.Succs))
			for i := range n.edges {
				n.edges[i] = "false"
			}
			return
		}
		// Path contexts: a multi-return inlined call forks the execution into one path
		// context per return (see inline). A join merges only edges of the same context; the
		// block is executed once per context, on a variant of the node. Plain diamonds in the
		// function's own code stay within one context and are merged as usual.
		if !f.spec && !x.inSpec() && len(live) > 1 && n.cutHdr == nil && os.Getenv("IONVC_NOJOINSPLIT") == "" {
			groups := map[int][]int{}
			var order []int
			for i, e := range live {
				if _, ok := groups[e.from.pc]; !ok {
					order = append(order, e.from.pc)
				}
				groups[e.from.pc] = append(groups[e.from.pc], i)
			}
			if len(order) > 1 && f.nVariants+len(order)-1 <= 6000 {
				f.nVariants += len(order) - 1
				for _, pc := range order[1:] {
					var es []inEdge
					var cs []string
					var hh []*Heap
					for _, i := range groups[pc] {
						es = append(es, live[i])
						cs = append(cs, conds[i])
						hh = append(hh, hs[i])
					}
					c := &node{key: n.key, blk: n.blk, ctx: n.ctx, in: es, env: map[ssa.Value]Val{}, memo: map[ssa.Value]*Val{}, primary: n, pc: pc}
					c.reach = g.Fresh(SortBool, or(cs...))
					c.heap = x.mergeHeaps(cs, hh)
					c.facts = f.factsAlong(es[0].from, es[0].succIdx)
					for _, e := range es[1:] {
						c.facts = intersectFacts(c.facts, f.factsAlong(e.from, e.succIdx))
					}
					seenEp := map[*epoch]bool{}
					for _, e := range es {
						for _, ep := range e.from.epochs {
							if !seenEp[ep] && ep.loopBody()[n.blk] {
								seenEp[ep] = true
								c.epochs = append(c.epochs, ep)
							}
						}
					}
					n.clones = append(n.clones, c)
					extra = append(extra, c)
				}
				var l0 []inEdge
				var c0 []string
				var h0 []*Heap
				for _, i := range groups[order[0]] {
					l0 = append(l0, live[i])
					c0 = append(c0, conds[i])
					h0 = append(h0, hs[i])
				}
				live, conds, hs = l0, c0, h0
				n.in = live
				n.pc = order[0]
			} else if len(order) == 1 {
				n.pc = order[0]
			}
		} else if len(live) == 1 {
			n.pc = live[0].from.pc
		}
		n.reach = g.Fresh(SortBool, or(conds...))
		heap = x.mergeHeaps(conds, hs)
		n.facts = f.factsAlong(live[0].from, live[0].succIdx)
		for _, e := range live[1:] {
			n.facts = intersectFacts(n.facts, f.factsAlong(e.from, e.succIdx))
		}
		if n.cutHdr != nil {
			n.facts = nil // the loop-carried state is havocked: facts about it do not survive
		}
		// epochs: inherited from predecessors that are inside the same cut loops
		seen := map[*epoch]bool{}
		for _, e := range live {
			for _, ep := range e.from.epochs {
				if !seen[ep] && ep.loopBody()[n.blk] {
					seen[ep] = true
					n.epochs = append(n.epochs, ep)
				}
			}
		}
	}
	if n.cutHdr != nil {
		heap = f.enterCutLoop(n, heap)
	}
	n.heap = heap
	x.budget -= len(n.blk.Instrs) * (1 + len(extra))
	if x.budget < 0 {
		unsup("execution budget exceeded in %s", f.fn.Name())
	}
	type pend struct {
		n   *node
		idx int
	}
	work := []pend{{n, 0}}
	for _, c := range extra {
		work = append(work, pend{c, 0})
	}
	savedForks := f.forks
	f.forks = nil
	for len(work) > 0 {
		p := work[len(work)-1]
		work = work[:len(work)-1]
		cur := p.n
		dead := false
		for i := p.idx; i < len(cur.blk.Instrs); i++ {
			ok := f.execTolerant(cur, cur.blk.Instrs[i])
			for _, c := range f.forks {
				work = append(work, pend{c, i + 1})
			}
			f.forks = nil
			if !ok {
				dead = true // path ends (panic): no outgoing edges
				break
			}
		}
		if dead || cur.edges == nil {
			cur.edges = make([]string, len(cur.blk.Succs))
			for i := range cur.edges {
				cur.edges[i] = "false"
			}
		}
		cur.done = true
	}
	f.forks = savedForks
}

func (ep *epoch) loopBody() map[*ssa.BasicBlock]bool { return ep.body }

// enterCutLoop asserts the invariant on entry, havocs the loop-carried state and
// assumes the invariant.
func (f *frame) enterCutLoop(n *node, heap *Heap) *Heap {
	x := f.x
	li := n.cutHdr
	// invariant holds on entry: evaluate per incoming edge
	for i := range n.in {
		e := n.in[i]
		f.checkInvariantAt(li, e.from, e.predSlot, e.cond, e.from.heap, "inv-entry")
	}
	nh, ep := x.havocAll(heap, false)
	ep.body = li.body
	n.epochs = append(n.epochs, ep)
	// header phis are havocked
	for _, ins := range n.blk.Instrs {
		phi, ok := ins.(*ssa.Phi)
		if !ok {
			break
		}
		n.env[phi] = x.havoc(phi.Type(), "loop."+phi.Comment)
		// a pointer that the loop sets to the address of an element of a slice (and that is nil
		// or such an address on entry) is, at the head of an arbitrary iteration, nil or the
		// address of an element of that slice: same backing array, unknown index
		if _, isPtr := phi.Type().Underlying().(*types.Pointer); isPtr {
			var coll *Val
			var collX ssa.Value
			okShape := true
			for _, e := range phi.Edges {
				switch ev := e.(type) {
				case *ssa.IndexAddr:
					if _, isSl := ev.X.Type().Underlying().(*types.Slice); !isSl {
						okShape = false
						break
					}
					if _, isPhi := ev.X.(*ssa.Phi); isPhi || (collX != nil && collX != ev.X) {
						okShape = false // the slice itself changes in the loop, or two slices
						break
					}
					collX = ev.X
					if cv, have := n.env[ev.X]; have && len(cv.C) == 4 {
						c := cv
						coll = &c
					} else if p, isParam := ev.X.(*ssa.Parameter); isParam {
						if cv, have := f.paramVals[p]; have && len(cv.C) == 4 {
							c := cv
							coll = &c
						}
					}
				case *ssa.Const:
					if !ev.IsNil() {
						okShape = false
					}
				case *ssa.Phi:
					if ev != phi {
						okShape = false
					}
				default:
					okShape = false
				}
			}
			if okShape && coll != nil {
				isNil := x.g.Const("loop."+phi.Comment+".nil", SortBool)
				idx := x.g.Const("loop."+phi.Comment+".idx", SortBV64)
				x.g.Assume(and("(bvuge "+idx+" "+coll.C[1]+")", "(bvult "+idx+" (bvadd "+coll.C[1]+" "+coll.C[2]+"))"))
				n.env[phi] = Val{T: phi.Type(), C: []string{x.g.Fresh(SortRef, ite(isNil, NilRef, coll.C[0]))}, Key: x.sliceKey(*coll), Idx: idx, Old: coll.Old}
			}
		}
	}
	// an enclosing cut loop sees everything this loop writes: handled by activeEpochs
	// The arbitrary iteration is reached under a reach variable of its own (it implies the
	// reach of the loop's entry, so earlier path facts carry over): the invariant assumed
	// below must not be visible to the obligations that establish it on entry. With the
	// entry's own reach as guard, a conjunct that mentions nothing the loop havocs (or
	// that is plainly false) would discharge its own entry obligation.
	head := x.g.Const("loophead", SortBool)
	x.g.Assume(implies(head, n.reach))
	n.reach = head
	// The hidden index of a `for i, v := range slice` loop is lowered by go/ssa to
	// phi(-1, index+1), advanced only while index+1 < len: it is never below -1 and stays
	// below the length. (Checked
	// against the lowering: one edge the constant -1, the other an addition of 1 to the phi.)
	for _, ins := range n.blk.Instrs {
		phi, ok := ins.(*ssa.Phi)
		if !ok {
			break
		}
		if phi.Comment != "rangeindex" || len(phi.Edges) < 2 {
			continue
		}
		// every edge is the constant -1 or the phi plus one (several back edges: `continue`)
		minus1, plus1, other := false, false, false
		for _, e := range phi.Edges {
			matched := false
			if k, ok := e.(*ssa.Const); ok && k.Value != nil && k.Value.Kind() == constant.Int {
				if v, exact := constant.Int64Val(k.Value); exact && v == -1 {
					minus1, matched = true, true
				}
			}
			if b, ok := e.(*ssa.BinOp); ok && b.Op == token.ADD && b.X == phi {
				if k, ok := b.Y.(*ssa.Const); ok && k.Value != nil {
					if v, exact := constant.Int64Val(k.Value); exact && v == 1 {
						plus1, matched = true, true
					}
				}
			}
			if !matched {
				other = true
			}
		}
		if minus1 && plus1 && !other {
			if v := n.env[phi]; len(v.C) == 1 {
				// ... and below the length of the slice, which is below 2^62
				x.g.Assume(implies(head, and("(bvsge "+v.C[0]+" "+bvLit(^uint64(0), 64)+")", "(bvslt "+v.C[0]+" "+bvLit(1<<62, 64)+")")))
			}
		}
	}
	// assume the invariant for the arbitrary iteration
	n.heap = nh
	for _, inv := range li.invs {
		t, _ := f.evalInvariant(li, inv, n, -1, nh, false)
		x.g.Assume(implies(n.reach, t))
		if inv.Unchecked {
			x.note("trusted assumption (loop counter treated as a mathematical integer) in %s: %s", f.fn.Name(), inv.Text)
		}
	}
	return nh
}

func (f *frame) checkInvariant(li *loopInfo, from *node, succIdx int, cond string, kind string) {
	// find predecessor slot of the header for this back edge
	v := from.blk.Succs[succIdx]
	slot := -1
	occ := 0
	for j := 0; j < succIdx; j++ {
		if from.blk.Succs[j] == v {
			occ++
		}
	}
	for j, p := range v.Preds {
		if p == from.blk {
			if occ == 0 {
				slot = j
				break
			}
			occ--
		}
	}
	f.checkInvariantAt(li, from, slot, cond, from.heap, kind)
}

func (f *frame) checkInvariantAt(li *loopInfo, from *node, slot int, cond string, heap *Heap, kind string) {
	if f.spec || f.x.inSpec() {
		return
	}
	for _, inv := range li.invs {
		if inv.Unchecked {
			continue
		}
		t, facts := f.evalInvariant(li, inv, from, slot, heap, true)
		f.x.oblige(kind, fmt.Sprintf("loop%d.%d", li.ordinal, inv.N), inv.Props, and(cond, facts, not(t)), f.fn, li.header.Instrs[0].Pos())
	}
}

// evalInvariant evaluates an invariant clause. slot >= 0: with the header phis taking
// the values that flow along predecessor slot `slot` as seen from node `at`;
// slot == -1: with the header node's own (havocked) phis.
func (f *frame) evalInvariant(li *loopInfo, inv *Clause, at *node, slot int, heap *Heap, goal bool) (Val2, string) {
	x := f.x
	binder := map[string]Val{}
	for _, b := range inv.Binder {
		var found *ssa.Phi
		// x_cur names the current value of a parameter x that the loop assigns (the plain
		// name is the entry value, as everywhere in a contract)
		bname := strings.TrimSuffix(b.Name, "_cur")
		for _, ins := range li.header.Instrs {
			phi, ok := ins.(*ssa.Phi)
			if !ok {
				break
			}
			if phi.Comment == bname || (b.Name == "idx_" && phi.Comment == "rangeindex") {
				found = phi
			}
		}
		if found != nil {
			if slot >= 0 {
				binder[b.Name] = f.lookup(at, found.Edges[slot])
			} else {
				binder[b.Name] = f.lookup(at, found)
			}
			continue
		}
		// a local that is not loop-carried: unique SSA definition
		vs := f.names[b.Name]
		if os.Getenv("IONVC_DEBUGINV") != "" {
			for _, v := range vs {
				fmt.Fprintf(os.Stderr, "  names[%s] has %s = %s\n", b.Name, v.Name(), v.String())
			}
		}
		uniq := map[ssa.Value]bool{}
		for _, v := range vs {
			uniq[v] = true
		}
		if len(uniq) != 1 {
			// assigned on several paths before the loop: the phi that merges them
			var phis []ssa.Value
			for _, blk := range f.fn.Blocks {
				for _, ins := range blk.Instrs {
					if phi, ok := ins.(*ssa.Phi); ok && phi.Comment == b.Name && !li.body[blk] {
						phis = append(phis, phi)
					}
				}
			}
			if len(phis) == 1 {
				uniq = map[ssa.Value]bool{phis[0]: true}
			} else if v := f.localAt(li.header.Instrs[0], bname); v != nil {
				// the definition that reaches the loop head
				uniq = map[ssa.Value]bool{v: true}
			} else {
				// The local does not exist (any more) in a form the invariant can name: the
				// invariant is left out, both as an assumption and as an obligation (sound: it
				// only weakens what the rest of the proof may use). Reporting it would turn a
				// renamed local into an alarm; what the invariant was needed for fails instead
				// if it is still needed.
				x.note("invariant loop%d.%d of %s is left out: it names %q, which is neither loop-carried nor uniquely defined", li.ordinal, inv.N, f.fn.Name(), b.Name)
				return "true", "true"
			}
		}
		for v := range uniq {
			binder[b.Name] = f.lookup(at, v)
			if os.Getenv("IONVC_DEBUGINV") != "" {
				fmt.Fprintf(os.Stderr, "  binder %s resolves to %s = %s\n", b.Name, v.Name(), v.String())
			}
		}
	}
	if os.Getenv("IONVC_DEBUGINV") != "" {
		for k, v := range binder {
			fmt.Fprintf(os.Stderr, "inv %s loop%d.%d slot %d binder %s = %v (type %v)\n", f.fn.Name(), li.ordinal, inv.N, slot, k, v.C, v.T)
		}
	}
	if goal {
		return x.evalClauseGoal(f, inv, heap, f.entryHeap, f.args, nil, binder)
	}
	return x.evalClauseAt(at.reach, f, inv, heap, f.entryHeap, f.args, nil, binder), "true"
}

type Val2 = string

func (x *Exec) funcRef(fn *ssa.Function) string {
	// function values compare only against nil
	return refLit(1)
}

func (x *Exec) globalPtr(gl *ssa.Global) Val {
	name := gl.Name()
	if gl.Pkg != nil {
		name = gl.Pkg.Pkg.Name() + "." + name
	}
	return Val{T: gl.Type(), C: []string{refLit(1)}, Key: "global:" + name}
}

// execTolerant runs execInstr; in tolerant mode (package initialisers) an instruction
// outside the subset havocs its result instead of aborting.
func (f *frame) execTolerant(n *node, ins ssa.Instruction) (cont bool) {
	if !f.x.tolerant {
		return f.execInstr(n, ins)
	}
	defer func() {
		if r := recover(); r != nil {
			u, ok := r.(unsupported)
			if !ok {
				panic(r)
			}
			cont = true
			if v, isVal := ins.(ssa.Value); isVal {
				func() {
					defer func() {
						if r2 := recover(); r2 != nil {
							if _, ok := r2.(unsupported); !ok {
								panic(r2)
							}
						}
					}()
					n.env[v] = f.x.havoc(v.Type(), "init")
				}()
			}
			f.x.note("initialiser step not modelled (%s)", u.msg)
			if _, isIf := ins.(*ssa.If); isIf {
				c := f.x.g.Const("init.branch", SortBool)
				f.edgeConds(n, c)
			}
		}
	}()
	return f.execInstr(n, ins)
}

// smallDiamond reports whether the join block b closes a plain if-then or if-then-else
// over straight-line code without calls: such joins are merged (one if-then-else term per
// assigned variable) even in path-sensitive mode, where splitting them would double the
// number of paths for no gain.
func smallDiamond(b *ssa.BasicBlock, live []inEdge) bool {
	idom := b.Idom()
	if idom == nil {
		return false
	}
	for _, e := range live {
		fb := e.from.blk
		if fb == idom {
			if e.from.primary != nil || len(e.from.clones) > 0 {
				return false
			}
			continue
		}
		if len(fb.Preds) != 1 || fb.Preds[0] != idom || len(fb.Instrs) > 8 {
			return false
		}
		if e.from.primary != nil || len(e.from.clones) > 0 {
			return false
		}
		for _, ins := range fb.Instrs {
			switch ins.(type) {
			case *ssa.Call, *ssa.Store, *ssa.MapUpdate, *ssa.Panic:
				return false
			}
		}
	}
	return true
}
