package vc

import (
	"fmt"
	"strings"
)

// Sorts used by the encoding.
const (
	SortRef  = "(_ BitVec 32)"
	SortBool = "Bool"
	SortBV8  = "(_ BitVec 8)"
	SortBV64 = "(_ BitVec 64)"
	SortTag  = "(_ BitVec 32)"
	SortInt  = "Int" // mathematical integers: only math/big.Int values
)

const NilRef = "#x00000000"

// AllocBase is the first reference handed out to objects allocated during the
// symbolic execution of a function. Objects that exist on entry live below it.
const AllocBase = uint32(0x80000000)

func refLit(v uint32) string { return fmt.Sprintf("#x%08x", v) }

func bvLit(v uint64, w int) string {
	if w < 64 {
		v &= (uint64(1) << uint(w)) - 1
	}
	return fmt.Sprintf("(_ bv%d %d)", v, w)
}

func bvSort(w int) string { return fmt.Sprintf("(_ BitVec %d)", w) }

func arrSort(idx, elem string) string { return "(Array " + idx + " " + elem + ")" }

// qname quotes an arbitrary identifier for SMT-LIB.
func qname(s string) string {
	s = strings.ReplaceAll(s, "|", "!")
	s = strings.ReplaceAll(s, "\\", "!")
	return "|" + s + "|"
}

type letBinding struct{ name, sort, def string }

type scope struct {
	lets []letBinding
}

// Gen accumulates one SMT-LIB script: declarations, shared definitions and
// global assumptions. Obligations are kept separately and checked one by one.
type Gen struct {
	decls    strings.Builder // declare-const / declare-fun / define-fun in order
	n        int
	declared map[string]bool
	assumes  []string
	scopes   []*scope // quantifier scopes (innermost last)
	Size     int
}

func NewGen() *Gen { return &Gen{declared: map[string]bool{}} }

// Fresh binds a new name to def. At top level it is a define-fun; inside a
// quantifier scope it is a let binding local to the quantifier body.
func (g *Gen) Fresh(sort, def string) string {
	// do not rename atoms
	if len(def) > 0 && def[0] != '(' {
		return def
	}
	g.n++
	name := fmt.Sprintf("x%d", g.n)
	if len(g.scopes) > 0 {
		s := g.scopes[len(g.scopes)-1]
		s.lets = append(s.lets, letBinding{name, sort, def})
		return name
	}
	fmt.Fprintf(&g.decls, "(define-fun %s () %s %s)\n", name, sort, def)
	g.Size += len(def) + 30
	return name
}

// Const declares a fresh unconstrained constant (always at top level).
func (g *Gen) Const(hint, sort string) string {
	g.n++
	name := qname(fmt.Sprintf("%s!%d", hint, g.n))
	fmt.Fprintf(&g.decls, "(declare-const %s %s)\n", name, sort)
	g.Size += len(name) + 30
	return name
}

// Named declares a constant with a fixed name once.
func (g *Gen) Named(name, sort string) string {
	q := qname(name)
	if !g.declared[q] {
		g.declared[q] = true
		fmt.Fprintf(&g.decls, "(declare-const %s %s)\n", q, sort)
	}
	return q
}

// Fun declares an uninterpreted function once.
func (g *Gen) Fun(name string, args []string, res string) string {
	q := qname(name)
	if !g.declared[q] {
		g.declared[q] = true
		fmt.Fprintf(&g.decls, "(declare-fun %s (%s) %s)\n", q, strings.Join(args, " "), res)
	}
	return q
}

// Raw emits a raw top-level command once (keyed by key).
func (g *Gen) Raw(key, text string) {
	if !g.declared["raw:"+key] {
		g.declared["raw:"+key] = true
		g.decls.WriteString(text)
		g.decls.WriteString("\n")
	}
}

// Assume records a global assumption. Inside a quantifier scope assumptions are
// dropped (specification code generates none that matter).
func (g *Gen) Assume(term string) {
	if len(g.scopes) > 0 {
		return
	}
	if term == "true" {
		return
	}
	g.assumes = append(g.assumes, term)
	g.Size += len(term) + 10
}

func (g *Gen) InQuant() bool { return len(g.scopes) > 0 }

func (g *Gen) PushScope() { g.scopes = append(g.scopes, &scope{}) }

// PopScope closes the innermost scope and wraps body in its let bindings.
func (g *Gen) PopScope(body string) string {
	s := g.scopes[len(g.scopes)-1]
	g.scopes = g.scopes[:len(g.scopes)-1]
	var b strings.Builder
	for _, l := range s.lets {
		fmt.Fprintf(&b, "(let ((%s %s)) ", l.name, l.def)
	}
	b.WriteString(body)
	for range s.lets {
		b.WriteString(")")
	}
	return b.String()
}

// Script returns the preamble shared by every obligation of this function.
func (g *Gen) Script() string {
	var b strings.Builder
	b.WriteString("(set-logic ALL)\n")
	b.WriteString(g.decls.String())
	for _, a := range g.assumes {
		b.WriteString("(assert ")
		b.WriteString(a)
		b.WriteString(")\n")
	}
	return b.String()
}

func and(xs ...string) string {
	var ys []string
	for _, x := range xs {
		if x == "true" || x == "" {
			continue
		}
		if x == "false" {
			return "false"
		}
		ys = append(ys, x)
	}
	if len(ys) == 0 {
		return "true"
	}
	if len(ys) == 1 {
		return ys[0]
	}
	return "(and " + strings.Join(ys, " ") + ")"
}

func or(xs ...string) string {
	var ys []string
	for _, x := range xs {
		if x == "false" || x == "" {
			continue
		}
		if x == "true" {
			return "true"
		}
		ys = append(ys, x)
	}
	if len(ys) == 0 {
		return "false"
	}
	if len(ys) == 1 {
		return ys[0]
	}
	return "(or " + strings.Join(ys, " ") + ")"
}

func not(x string) string {
	switch x {
	case "true":
		return "false"
	case "false":
		return "true"
	}
	if strings.HasPrefix(x, "(not ") && strings.HasSuffix(x, ")") && balanced(x[5:len(x)-1]) {
		return x[5 : len(x)-1]
	}
	return "(not " + x + ")"
}

func balanced(s string) bool {
	d := 0
	inbar := false
	for i, c := range s {
		if c == '|' {
			inbar = !inbar
		}
		if inbar {
			continue
		}
		if c == '(' {
			d++
		} else if c == ')' {
			d--
			if d < 0 {
				return false
			}
			if d == 0 && i != len(s)-1 {
				return false
			}
		} else if d == 0 && (c == ' ') {
			return false
		}
	}
	return d == 0
}

func implies(a, b string) string {
	if a == "true" {
		return b
	}
	if a == "false" || b == "true" {
		return "true"
	}
	return "(=> " + a + " " + b + ")"
}

func ite(c, a, b string) string {
	if c == "true" {
		return a
	}
	if c == "false" {
		return b
	}
	if a == b {
		return a
	}
	return "(ite " + c + " " + a + " " + b + ")"
}

func isLiteral(t string) bool {
	return strings.HasPrefix(t, "#x") || strings.HasPrefix(t, "#b") || (strings.HasPrefix(t, "(_ bv") && !strings.Contains(t[1:], "("))
}

func eq(a, b string) string {
	if a == b {
		return "true"
	}
	if isLiteral(a) && isLiteral(b) && a[:2] == b[:2] {
		return "false"
	}
	return "(= " + a + " " + b + ")"
}
