package vc

import (
	"fmt"
	"hash/fnv"
	"os"
	"strings"
)

// Sorts used by the encoding.
const (
	SortRef  = "(_ BitVec 32)"
	SortBool = "Bool"
	SortBV8  = "(_ BitVec 8)"
	SortBV64 = "(_ BitVec 64)"
	SortTag  = "(_ BitVec 32)"
	SortInt  = "Int" // mathematical integers: only math/big.Int values
)

const NilRef = "#x00000000"

// AllocBase is the first reference handed out to objects allocated during the
// symbolic execution of a function. Objects that exist on entry live below it.
const AllocBase = uint32(0x80000000)

func refLit(v uint32) string { return fmt.Sprintf("#x%08x", v) }

func bvLit(v uint64, w int) string {
	if w < 64 {
		v &= (uint64(1) << uint(w)) - 1
	}
	return fmt.Sprintf("(_ bv%d %d)", v, w)
}

func bvSort(w int) string { return fmt.Sprintf("(_ BitVec %d)", w) }

func arrSort(idx, elem string) string { return "(Array " + idx + " " + elem + ")" }

// qname quotes an arbitrary identifier for SMT-LIB.
func qname(s string) string {
	s = strings.ReplaceAll(s, "|", "!")
	s = strings.ReplaceAll(s, "\\", "!")
	return "|" + s + "|"
}

type letBinding struct{ name, sort, def string }

type scope struct {
	lets   []letBinding
	locals map[string]bool // the bound variable and the let names that depend on it
	consed map[string]string
}

// Gen accumulates one SMT-LIB script: declarations, shared definitions and
// global assumptions. Obligations are kept separately and checked one by one.
type Gen struct {
	items    []genItem // declare-const / declare-fun / define-fun / raw commands in order
	byName   map[string]int
	n        int
	declared map[string]bool
	assumes  []string
	scopes   []*scope // quantifier scopes (innermost last)
	Size     int
	consed   map[string]string
	assumed  map[string]bool
	boolDef  map[string]string
	defOf    map[string]string
}

// Atom strips negations from a Boolean term name: it returns the underlying term and
// whether the original is its negation.
func (g *Gen) Atom(t string) (string, bool) {
	neg := false
	for {
		if d, ok := g.boolDef[t]; ok && strings.HasPrefix(d, "(not ") && balanced(d[5:len(d)-1]) {
			t = d[5 : len(d)-1]
			neg = !neg
			continue
		}
		if strings.HasPrefix(t, "(not ") && strings.HasSuffix(t, ")") && balanced(t[5:len(t)-1]) {
			t = t[5 : len(t)-1]
			neg = !neg
			continue
		}
		if n, ok := g.consed[t]; ok {
			t = n // the canonical name of the term
			if d, ok := g.boolDef[t]; ok && strings.HasPrefix(d, "(not ") {
				continue
			}
		}
		return t, neg
	}
}

// genItem is one top-level command of the preamble.
type genItem struct {
	kind string // define declare raw
	name string
	text string
	deps []int // items this one mentions (filled lazily by the slicer)
	done bool
}

func NewGen() *Gen {
	return &Gen{declared: map[string]bool{}, byName: map[string]int{}, consed: map[string]string{}, assumed: map[string]bool{}, boolDef: map[string]string{}, defOf: map[string]string{}}
}

func (g *Gen) add(kind, name, text string) {
	if name != "" {
		g.byName[name] = len(g.items)
	}
	g.items = append(g.items, genItem{kind: kind, name: name, text: text})
}

// Fresh binds a new name to def. At top level it is a define-fun; inside a
// quantifier scope it is a let binding local to the quantifier body.
func (g *Gen) Fresh(sort, def string) string {
	// do not rename atoms and literals
	if len(def) > 0 && (def[0] != '(' || isLiteral(def)) {
		return def
	}
	ground := len(g.scopes) == 0 || !g.mentionsLocal(def)
	if ground {
		// hash-consing: one name per distinct term
		if n, ok := g.consed[def]; ok {
			return n
		}
	}
	if !ground {
		// let names are numbered within the scope (canonical text, see QuantDepth)
		s := g.scopes[len(g.scopes)-1]
		if n, ok := s.consed[def]; ok {
			return n
		}
		name := fmt.Sprintf("l!%d!%d", len(g.scopes), len(s.lets))
		s.consed[def] = name
		s.lets = append(s.lets, letBinding{name, sort, def})
		s.locals[name] = true
		return name
	}
	g.n++
	name := fmt.Sprintf("x%d", g.n)
	if !ground {
		// depends on a bound variable: a let binding inside the innermost quantifier that
		// binds something it mentions (ground subterms are hoisted to the top level, which
		// keeps quantifier bodies small and their patterns simple)
		s := g.scopes[len(g.scopes)-1]
		s.lets = append(s.lets, letBinding{name, sort, def})
		s.locals[name] = true
		return name
	}
	g.consed[def] = name
	g.defOf[name] = def
	if sort == SortBool {
		g.boolDef[name] = def
	}
	g.add("define", name, fmt.Sprintf("(define-fun %s () %s %s)\n", name, sort, def))
	g.Size += len(def) + 30
	return name
}

// Const declares a fresh unconstrained constant (always at top level).
func (g *Gen) Const(hint, sort string) string {
	g.n++
	name := qname(fmt.Sprintf("%s!%d", hint, g.n))
	g.add("declare", name, fmt.Sprintf("(declare-const %s %s)\n", name, sort))
	g.Size += len(name) + 30
	return name
}

// Named declares a constant with a fixed name once.
func (g *Gen) Named(name, sort string) string {
	q := qname(name)
	if !g.declared[q] {
		g.declared[q] = true
		g.add("declare", q, fmt.Sprintf("(declare-const %s %s)\n", q, sort))
	}
	return q
}

// Fun declares an uninterpreted function once.
func (g *Gen) Fun(name string, args []string, res string) string {
	q := qname(name)
	if !g.declared[q] {
		g.declared[q] = true
		g.add("declare", q, fmt.Sprintf("(declare-fun %s (%s) %s)\n", q, strings.Join(args, " "), res))
	}
	return q
}

// Raw emits a raw top-level command once (keyed by key). Raw commands (sort
// declarations) are part of every sliced script.
func (g *Gen) Raw(key, text string) {
	if !g.declared["raw:"+key] {
		g.declared["raw:"+key] = true
		g.add("raw", "", text+"\n")
	}
}

// Assume records a global assumption. Inside a quantifier scope assumptions are
// dropped (specification code generates none that matter).
func (g *Gen) Assume(term string) {
	if len(g.scopes) > 0 {
		return
	}
	if term == "true" || g.assumed[term] {
		return
	}
	g.assumed[term] = true
	g.assumes = append(g.assumes, term)
	g.Size += len(term) + 10
}

// MarkAssumes / TakeAssumes bracket an evaluation whose assumptions belong to one
// obligation only: TakeAssumes removes everything assumed since the mark from the global
// list and returns it.
func (g *Gen) MarkAssumes() int { return len(g.assumes) }

func (g *Gen) TakeAssumes(mark int) []string {
	if mark >= len(g.assumes) {
		return nil
	}
	out := append([]string{}, g.assumes[mark:]...)
	for _, t := range out {
		delete(g.assumed, t)
		g.Size -= len(t) + 10
	}
	g.assumes = g.assumes[:mark]
	return out
}

func (g *Gen) InQuant() bool { return len(g.scopes) > 0 }

// QuantDepth is the number of open quantifier scopes.
func (g *Gen) QuantDepth() int { return len(g.scopes) }

func (g *Gen) PushScope(bound ...string) {
	sc := &scope{locals: map[string]bool{}, consed: map[string]string{}}
	for _, b := range bound {
		sc.locals[b] = true
	}
	g.scopes = append(g.scopes, sc)
}

// mentionsLocal reports whether the term mentions a bound variable or a let name of an
// open quantifier scope.
func (g *Gen) mentionsLocal(def string) bool {
	n := len(def)
	for i := 0; i < n; {
		c := def[i]
		if c == '|' {
			j := i + 1
			for j < n && def[j] != '|' {
				j++
			}
			i = j + 1
			continue
		}
		if c == '(' || c == ')' || c == ' ' {
			i++
			continue
		}
		j := i
		for j < n && def[j] != '(' && def[j] != ')' && def[j] != ' ' {
			j++
		}
		tok := def[i:j]
		for _, sc := range g.scopes {
			if sc.locals[tok] {
				return true
			}
		}
		i = j
	}
	return false
}

// PopScope closes the innermost scope and wraps body in its let bindings.
func (g *Gen) PopScope(body string) string {
	s := g.scopes[len(g.scopes)-1]
	g.scopes = g.scopes[:len(g.scopes)-1]
	var b strings.Builder
	for _, l := range s.lets {
		fmt.Fprintf(&b, "(let ((%s %s)) ", l.name, l.def)
	}
	b.WriteString(body)
	for range s.lets {
		b.WriteString(")")
	}
	return b.String()
}

// Script returns the preamble shared by every obligation of this function.
func (g *Gen) Script() string {
	var b strings.Builder
	b.WriteString("(set-logic ALL)\n")
	for i := range g.items {
		b.WriteString(g.items[i].text)
	}
	for _, a := range g.assumes {
		b.WriteString("(assert ")
		b.WriteString(a)
		b.WriteString(")\n")
	}
	return b.String()
}

// symbolsIn calls f for every item index named in text.
func (g *Gen) symbolsIn(text string, f func(int)) {
	n := len(text)
	for i := 0; i < n; {
		c := text[i]
		switch {
		case c == '|':
			j := i + 1
			for j < n && text[j] != '|' {
				j++
			}
			if j < n {
				if k, ok := g.byName[text[i:j+1]]; ok {
					f(k)
				}
			}
			i = j + 1
		case c == 'x' && (i == 0 || text[i-1] == ' ' || text[i-1] == '('):
			j := i + 1
			for j < n && text[j] >= '0' && text[j] <= '9' {
				j++
			}
			if j > i+1 && (j == n || text[j] == ' ' || text[j] == ')') {
				if k, ok := g.byName[text[i:j]]; ok {
					f(k)
				}
			}
			i = j
		default:
			i++
		}
	}
}

// Slicer computes, per obligation, the part of the preamble the obligation can depend
// on: the definitions and declarations its condition mentions (transitively) and every
// assumption connected to those through a shared uninterpreted symbol (cone of
// influence, to a fixed point). Leaving out an assumption can only make a proof
// obligation harder to discharge, never easier, so slicing is sound for proofs.
type Slicer struct {
	g         *Gen
	asDeps    [][]int        // per assumption: items it mentions directly
	asDecl    []map[int]bool // per assumption: declared symbols in its transitive closure
	declIndex map[int][]int  // declared item -> assumptions whose closure contains it
	itemHash  []uint64
	asHash    []uint64
	guards    []map[string]bool
	guardDone []bool
}

func (g *Gen) deps(i int) []int {
	it := &g.items[i]
	if !it.done {
		it.done = true
		if it.kind == "define" || it.kind == "declare" {
			// the text after the name
			seen := map[int]bool{}
			g.symbolsIn(it.text, func(k int) {
				if k != i && !seen[k] {
					seen[k] = true
					it.deps = append(it.deps, k)
				}
			})
		}
	}
	return it.deps
}

func (g *Gen) closure(start []int, in map[int]bool) {
	stack := append([]int{}, start...)
	for len(stack) > 0 {
		k := stack[len(stack)-1]
		stack = stack[:len(stack)-1]
		if in[k] {
			continue
		}
		in[k] = true
		for _, d := range g.deps(k) {
			if !in[d] {
				stack = append(stack, d)
			}
		}
	}
}

func (g *Gen) NewSlicer() *Slicer {
	s := &Slicer{g: g, declIndex: map[int][]int{}}
	memo := map[int]map[int]bool{} // define item -> declared symbols in its closure
	var declsOf func(k int) map[int]bool
	declsOf = func(k int) map[int]bool {
		if m, ok := memo[k]; ok {
			return m
		}
		m := map[int]bool{}
		memo[k] = m
		if g.items[k].kind == "declare" {
			m[k] = true
		}
		for _, d := range g.deps(k) {
			for x := range declsOf(d) {
				m[x] = true
			}
		}
		return m
	}
	for ai, a := range g.assumes {
		var direct []int
		seen := map[int]bool{}
		g.symbolsIn(a, func(k int) {
			if !seen[k] {
				seen[k] = true
				direct = append(direct, k)
			}
		})
		s.asDeps = append(s.asDeps, direct)
		dm := map[int]bool{}
		for _, k := range direct {
			for x := range declsOf(k) {
				dm[x] = true
			}
		}
		s.asDecl = append(s.asDecl, dm)
		for x := range dm {
			s.declIndex[x] = append(s.declIndex[x], ai)
		}
	}
	return s
}

// Key returns a digest of the sliced query for cond (the same selection as Script, hashed
// through per-item digests instead of the text itself).
func (s *Slicer) Key(cond string) string {
	g := s.g
	if s.itemHash == nil {
		s.itemHash = make([]uint64, len(g.items))
		for i := range g.items {
			s.itemHash[i] = fnv64(g.items[i].text)
		}
		s.asHash = make([]uint64, len(g.assumes))
		for i, a := range g.assumes {
			s.asHash[i] = fnv64(a)
		}
	}
	in, asIn := s.sel(cond)
	h := fnv.New128a()
	var buf [8]byte
	put := func(v uint64) {
		for k := 0; k < 8; k++ {
			buf[k] = byte(v >> (8 * k))
		}
		h.Write(buf[:])
	}
	for i := range g.items {
		if in[i] || g.items[i].kind == "raw" {
			put(s.itemHash[i])
		}
	}
	put(0xFFFFFFFFFFFFFFFF)
	for ai := range g.assumes {
		if asIn[ai] {
			put(s.asHash[ai])
		}
	}
	h.Write([]byte(cond))
	return fmt.Sprintf("%x", h.Sum(nil))
}

func fnv64(s string) uint64 {
	h := fnv.New64a()
	h.Write([]byte(s))
	return h.Sum64()
}

// Script returns the sliced preamble for one obligation condition.
func (s *Slicer) Script(cond string) string {
	g := s.g
	in, asIn := s.sel(cond)
	var b strings.Builder
	b.WriteString("(set-logic ALL)\n")
	for i := range g.items {
		if in[i] || g.items[i].kind == "raw" {
			b.WriteString(g.items[i].text)
		}
	}
	for ai, a := range g.assumes {
		if asIn[ai] {
			b.WriteString("(assert ")
			b.WriteString(a)
			b.WriteString(")\n")
		}
	}
	return b.String()
}

// literals flattens a Boolean term into the literals of its top-level conjunction, looking
// through the definitions of named terms: name -> polarity (true: the name holds). Anything
// that is not a conjunction, a negated name or a name is skipped.
func (g *Gen) literals(t string, pol bool, out map[string]bool, depth int) {
	t = strings.TrimSpace(t)
	if depth > 64 || t == "" || t == "true" {
		return
	}
	if strings.HasPrefix(t, "(not ") && balanced(t[5:len(t)-1]) {
		inner := strings.TrimSpace(t[5 : len(t)-1])
		if !strings.HasPrefix(inner, "(") {
			if d, ok := g.boolDef[inner]; ok && strings.HasPrefix(d, "(not ") {
				g.literals(d, !pol, out, depth+1) // not (not x)
				return
			}
			out[inner] = !pol
		}
		return
	}
	if !pol {
		return
	}
	if strings.HasPrefix(t, "(and ") {
		for _, p := range splitSexp(t[5 : len(t)-1]) {
			g.literals(p, true, out, depth+1)
		}
		return
	}
	if !strings.HasPrefix(t, "(") {
		out[t] = true
		if d, ok := g.boolDef[t]; ok && (strings.HasPrefix(d, "(and ") || strings.HasPrefix(d, "(not ")) {
			g.literals(d, true, out, depth+1)
		}
	}
}

// contradicts reports whether an assumption of the form (=> guard fact) is guarded by a
// literal whose complement the goal asserts: such an assumption says nothing on the paths
// the goal is about (it belongs to another branch), and leaving it out only weakens the
// hypotheses.
func (s *Slicer) contradicts(ai int, goal map[string]bool) bool {
	if s.guards == nil {
		s.guards = make([]map[string]bool, len(s.g.assumes))
		s.guardDone = make([]bool, len(s.g.assumes))
	}
	if !s.guardDone[ai] {
		s.guardDone[ai] = true
		a := s.g.assumes[ai]
		if strings.HasPrefix(a, "(=> ") {
			parts := splitSexp(a[4 : len(a)-1])
			if len(parts) == 2 {
				m := map[string]bool{}
				s.g.literals(parts[0], true, m, 0)
				s.guards[ai] = m
			}
		}
	}
	for name, pol := range s.guards[ai] {
		if gp, ok := goal[name]; ok && gp != pol {
			return true
		}
	}
	return false
}

// sel computes the items and assumptions of the slice for cond.
func (s *Slicer) sel(cond string) (map[int]bool, []bool) {
	g := s.g
	goal := map[string]bool{}
	if os.Getenv("IONVC_NOPRUNE") == "" {
		g.literals(cond, true, goal, 0)
	}
	in := map[int]bool{}
	var start []int
	g.symbolsIn(cond, func(k int) { start = append(start, k) })
	g.closure(start, in)
	asIn := make([]bool, len(g.assumes))
	// fixed point over assumptions connected through declared symbols
	var work []int
	for k := range in {
		if g.items[k].kind == "declare" {
			work = append(work, k)
		}
	}
	visited := map[int]bool{}
	for len(work) > 0 {
		d := work[len(work)-1]
		work = work[:len(work)-1]
		if visited[d] {
			continue
		}
		visited[d] = true
		for _, ai := range s.declIndex[d] {
			if asIn[ai] {
				continue
			}
			if len(goal) > 0 && s.contradicts(ai, goal) {
				continue
			}
			asIn[ai] = true
			g.closure(s.asDeps[ai], in)
			for x := range s.asDecl[ai] {
				if !visited[x] {
					work = append(work, x)
				}
			}
		}
	}
	// assumptions without any declared symbol (closed facts) are always kept
	for ai := range g.assumes {
		if len(s.asDecl[ai]) == 0 && !asIn[ai] {
			asIn[ai] = true
			g.closure(s.asDeps[ai], in)
		}
	}
	return in, asIn
}

func and(xs ...string) string {
	var ys []string
	for _, x := range xs {
		if x == "true" || x == "" {
			continue
		}
		if x == "false" {
			return "false"
		}
		ys = append(ys, x)
	}
	if len(ys) == 0 {
		return "true"
	}
	if len(ys) == 1 {
		return ys[0]
	}
	return "(and " + strings.Join(ys, " ") + ")"
}

func or(xs ...string) string {
	var ys []string
	for _, x := range xs {
		if x == "false" || x == "" {
			continue
		}
		if x == "true" {
			return "true"
		}
		ys = append(ys, x)
	}
	if len(ys) == 0 {
		return "false"
	}
	if len(ys) == 1 {
		return ys[0]
	}
	return "(or " + strings.Join(ys, " ") + ")"
}

func not(x string) string {
	switch x {
	case "true":
		return "false"
	case "false":
		return "true"
	}
	if strings.HasPrefix(x, "(not ") && strings.HasSuffix(x, ")") && balanced(x[5:len(x)-1]) {
		return x[5 : len(x)-1]
	}
	return "(not " + x + ")"
}

func balanced(s string) bool {
	d := 0
	inbar := false
	for i, c := range s {
		if c == '|' {
			inbar = !inbar
		}
		if inbar {
			continue
		}
		if c == '(' {
			d++
		} else if c == ')' {
			d--
			if d < 0 {
				return false
			}
			if d == 0 && i != len(s)-1 {
				return false
			}
		} else if d == 0 && (c == ' ') {
			return false
		}
	}
	return d == 0
}

func implies(a, b string) string {
	if a == "true" {
		return b
	}
	if a == "false" || b == "true" {
		return "true"
	}
	return "(=> " + a + " " + b + ")"
}

func ite(c, a, b string) string {
	if c == "true" {
		return a
	}
	if c == "false" {
		return b
	}
	if a == b {
		return a
	}
	return "(ite " + c + " " + a + " " + b + ")"
}

func isLiteral(t string) bool {
	return strings.HasPrefix(t, "#x") || strings.HasPrefix(t, "#b") || (strings.HasPrefix(t, "(_ bv") && !strings.Contains(t[1:], "("))
}

func eq(a, b string) string {
	if a == b {
		return "true"
	}
	if isLiteral(a) && isLiteral(b) {
		if a[:2] == b[:2] {
			return "false"
		}
		// the two spellings of a bit-vector literal: #x........ and (_ bvN W)
		if va, wa, oka := litValue(a); oka {
			if vb, wb, okb := litValue(b); okb && wa == wb {
				if va == vb {
					return "true"
				}
				return "false"
			}
		}
	}
	return "(= " + a + " " + b + ")"
}

// litValue parses a bit-vector literal in either spelling.
func litValue(t string) (uint64, int, bool) {
	if strings.HasPrefix(t, "#x") {
		var v uint64
		if _, err := fmt.Sscanf(t[2:], "%x", &v); err == nil {
			return v, 4 * (len(t) - 2), true
		}
		return 0, 0, false
	}
	var v uint64
	var w int
	if n, err := fmt.Sscanf(t, "(_ bv%d %d)", &v, &w); n == 2 && err == nil {
		return v, w, true
	}
	return 0, 0, false
}

// isNil reports whether a reference term is the nil literal in either spelling.
func isNil(t string) bool {
	if t == NilRef {
		return true
	}
	v, w, ok := litValue(t)
	return ok && w == 32 && v == 0
}
