package vc

import (
	"fmt"
	"go/types"
	"strings"

	"golang.org/x/tools/go/ssa"
)

// TrustedExternals documents, for the evidence file, the library functions whose
// behaviour the engine models directly (every one is an assumption, not a proof).
var TrustedExternals = map[string]string{
	"fmt.Sprintf":                           "returns some string; no effect on the heap",
	"fmt.Sprint":                            "returns some string; no effect on the heap",
	"fmt.Errorf":                            "returns a non-nil error; no effect on the heap",
	"errors.New":                            "returns a non-nil error; no effect on the heap",
	"math.Float64bits":                      "IEEE-754 bits of the argument (NaN payload unconstrained)",
	"math.Float32bits":                      "IEEE-754 bits of the argument (NaN payload unconstrained)",
	"math.Float64frombits":                  "IEEE-754 value of the bits",
	"math.Float32frombits":                  "IEEE-754 value of the bits",
	"math.IsNaN":                            "fp.isNaN",
	"math.IsInf":                            "fp.isInfinite with sign",
	"math.Signbit":                          "sign bit (of NaN: unconstrained)",
	"unicode/utf8.Valid":                    "uninterpreted predicate of the byte sequence",
	"unicode/utf8.ValidString":              "uninterpreted predicate of the byte sequence",
	"(encoding/binary.bigEndian).Uint32":    "big-endian fold of 4 bytes; panics if shorter",
	"(encoding/binary.bigEndian).Uint64":    "big-endian fold of 8 bytes; panics if shorter",
	"(encoding/binary.bigEndian).PutUint32": "big-endian store of 4 bytes; panics if shorter",
	"(encoding/binary.bigEndian).PutUint64": "big-endian store of 8 bytes; panics if shorter",
}

func (x *Exec) nonNilError(t types.Type, hint string) Val {
	v := x.havoc(t, hint)
	x.g.Assume(not(eq(v.C[0], bvLit(0, 32))))
	return v
}

// external models selected library functions. It returns handled=false for anything
// it does not know.
func (f *frame) external(n *node, callee *ssa.Function, full string, args []Val, in *ssa.Call) (Val, bool) {
	x := f.x
	g := x.g
	rt := resultType(callee.Signature)
	switch full {
	case "fmt.Sprintf", "fmt.Sprint", "fmt.Sprintln", "strconv.Itoa", "strconv.FormatInt", "strconv.FormatUint", "strconv.Quote":
		x.note("library call %s: result is an unknown string", full)
		return x.havoc(rt, "str"), true
	case "fmt.Errorf", "errors.New", "golang.org/x/xerrors.Errorf", "golang.org/x/xerrors.New":
		x.note("library call %s: result is a non-nil error", full)
		return x.nonNilError(rt, "err"), true
	case "math.Float64frombits":
		return Val{T: rt, C: []string{g.Fresh(fpSort(types.Float64), "((_ to_fp 11 53) "+args[0].C[0]+")")}}, true
	case "math.Float32frombits":
		return Val{T: rt, C: []string{g.Fresh(fpSort(types.Float32), "((_ to_fp 8 24) "+args[0].C[0]+")")}}, true
	case "math.Float64bits":
		b := g.Const("f64bits", SortBV64)
		g.Assume(eq("((_ to_fp 11 53) "+b+")", args[0].C[0]))
		return Val{T: rt, C: []string{b}}, true
	case "math.Float32bits":
		b := g.Const("f32bits", bvSort(32))
		g.Assume(eq("((_ to_fp 8 24) "+b+")", args[0].C[0]))
		return Val{T: rt, C: []string{b}}, true
	case "math.IsNaN":
		return Val{T: rt, C: []string{g.Fresh(SortBool, "(fp.isNaN "+args[0].C[0]+")")}}, true
	case "math.IsInf":
		s := args[1].C[0]
		inf := "(fp.isInfinite " + args[0].C[0] + ")"
		pos := "(fp.isPositive " + args[0].C[0] + ")"
		z := bvLit(0, 64)
		t := and(inf, or(eq(s, z), and("(bvsgt "+s+" "+z+")", pos), and("(bvslt "+s+" "+z+")", not(pos))))
		return Val{T: rt, C: []string{g.Fresh(SortBool, t)}}, true
	case "math.Signbit":
		return Val{T: rt, C: []string{g.Fresh(SortBool, "(fp.isNegative "+args[0].C[0]+")")}}, true
	case "math.Inf":
		s := args[0].C[0]
		return Val{T: rt, C: []string{g.Fresh(fpSort(types.Float64), ite("(bvsge "+s+" "+bvLit(0, 64)+")", "(_ +oo 11 53)", "(_ -oo 11 53)"))}}, true
	case "math.NaN":
		return Val{T: rt, C: []string{"(_ NaN 11 53)"}}, true
	case "unicode/utf8.Valid":
		fn := g.Fun("utf8valid", []string{arrSort(SortBV64, SortBV8), SortBV64, SortBV64}, SortBool)
		s := args[0]
		arr := x.hget(f.heapFor(n, s), x.sliceKey(s)+"[]", SortBV8, SortBV64)
		return Val{T: rt, C: []string{g.Fresh(SortBool, "("+fn+" (select "+arr+" "+s.C[0]+") "+s.C[1]+" "+s.C[2]+")")}}, true
	case "unicode/utf8.ValidString":
		fn := g.Fun("utf8valid", []string{arrSort(SortBV64, SortBV8), SortBV64, SortBV64}, SortBool)
		s := args[0]
		return Val{T: rt, C: []string{g.Fresh(SortBool, "("+fn+" "+s.C[0]+" "+s.C[1]+" "+s.C[2]+")")}}, true
	case "(encoding/binary.bigEndian).Uint32", "(encoding/binary.bigEndian).Uint64", "(encoding/binary.bigEndian).Uint16":
		nb := 4
		if strings.HasSuffix(full, "64") {
			nb = 8
		} else if strings.HasSuffix(full, "16") {
			nb = 2
		}
		s := args[len(args)-1]
		x.safety(f, n, "index", "bigEndian", "(bvuge "+s.C[2]+" "+bvLit(uint64(nb), 64)+")", in.Pos())
		arr := x.hget(f.heapFor(n, s), x.sliceKey(s)+"[]", SortBV8, SortBV64)
		inner := g.Fresh(arrSort(SortBV64, SortBV8), "(select "+arr+" "+s.C[0]+")")
		var parts []string
		for i := 0; i < nb; i++ {
			parts = append(parts, "(select "+inner+" (bvadd "+s.C[1]+" "+bvLit(uint64(i), 64)+"))")
		}
		return Val{T: rt, C: []string{g.Fresh(bvSort(nb*8), "(concat "+strings.Join(parts, " ")+")")}}, true
	case "(encoding/binary.bigEndian).PutUint32", "(encoding/binary.bigEndian).PutUint64":
		nb := 4
		if strings.HasSuffix(full, "64") {
			nb = 8
		}
		s := args[len(args)-2]
		v := args[len(args)-1]
		x.safety(f, n, "index", "bigEndian", "(bvuge "+s.C[2]+" "+bvLit(uint64(nb), 64)+")", in.Pos())
		k := x.sliceKey(s) + "[]"
		arr := x.hget(n.heap, k, SortBV8, SortBV64)
		inner := "(select " + arr + " " + s.C[0] + ")"
		for i := 0; i < nb; i++ {
			hi := (nb-i)*8 - 1
			inner = fmt.Sprintf("(store %s (bvadd %s %s) ((_ extract %d %d) %s))", inner, s.C[1], bvLit(uint64(i), 64), hi, hi-7, v.C[0])
		}
		x.hset(n.heap, k, SortBV8, SortBV64, g.Fresh(heapArraySort(SortBV8, SortBV64), "(store "+arr+" "+s.C[0]+" "+inner+")"), s.C[0])
		for _, ep := range f.activeEpochs(n) {
			ep.written[k] = true
		}
		return Val{T: rt}, true
	}
	// time.Date: the same fields give the same instant (an uninterpreted function of its
	// arguments; what it normalises is not modelled)
	if full == "time.Date" && len(args) == 8 {
		ok := true
		var terms, sorts []string
		for _, a := range args {
			if len(a.C) != 1 {
				ok = false
				break
			}
			terms = append(terms, a.C[0])
			cs := x.comps(a.T)
			sorts = append(sorts, cs[0].sort)
		}
		if ok {
			x.note("trusted: time.Date is a pure function of its arguments")
			x.g.Raw("sort:"+opaqueSort("time.Time"), "(declare-sort "+opaqueSort("time.Time")+" 0)")
			fn := g.Fun("time:Date", sorts, opaqueSort("time.Time"))
			return Val{T: rt, C: []string{g.Fresh(opaqueSort("time.Time"), "("+fn+" "+strings.Join(terms, " ")+")")}}, true
		}
	}
	// time.Time getters: uninterpreted functions of the (opaque) time value, within the
	// ranges the library documents
	if strings.HasPrefix(full, "(time.Time).") && len(args) >= 1 && len(args[0].C) == 1 {
		type rng struct{ lo, hi int64 }
		ranges := map[string]rng{"Month": {1, 12}, "Day": {1, 31}, "Hour": {0, 23}, "Minute": {0, 59}, "Second": {0, 59}, "Nanosecond": {0, 999999999},
			"YearDay": {1, 366}, "Weekday": {0, 6}}
		name := strings.TrimPrefix(full, "(time.Time).")
		if name == "Year" || ranges[name].hi != 0 {
			x.note("trusted: time.Time getters are pure functions of the time value with the documented ranges (Month 1-12, Day 1-31, Hour 0-23, Minute/Second 0-59, Nanosecond 0-999999999)")
			x.g.Raw("sort:"+opaqueSort("time.Time"), "(declare-sort "+opaqueSort("time.Time")+" 0)")
			fn := g.Fun("time:"+name, []string{opaqueSort("time.Time")}, SortBV64)
			t := g.Fresh(SortBV64, "("+fn+" "+args[0].C[0]+")")
			if r, ok := ranges[name]; ok {
				g.Assume(and("(bvsle "+bvLit(uint64(r.lo), 64)+" "+t+")", "(bvsle "+t+" "+bvLit(uint64(r.hi), 64)+")"))
			}
			return Val{T: rt, C: []string{t}}, true
		}
	}
	// reflect.Value: observers are uninterpreted functions of the (opaque) value and the
	// arguments; setters are not modelled (their effect is on memory the engine does not
	// see) - contracts constrain the arguments they are called with (atcall)
	if strings.HasPrefix(full, "(reflect.Value).") && len(args) >= 1 && len(args[0].C) == 1 {
		name := strings.TrimPrefix(full, "(reflect.Value).")
		x.note("trusted: reflect.Value observers are pure functions of the value and their arguments; reflect setters are not modelled")
		x.g.Raw("sort:"+opaqueSort("reflect.Value"), "(declare-sort "+opaqueSort("reflect.Value")+" 0)")
		if strings.HasPrefix(name, "Set") {
			return Val{T: rt}, true
		}
		// the type of a value and its kind: Kind() is the kind of Type()
		typeOf := g.Fun("reflect:typeOf", []string{opaqueSort("reflect.Value")}, SortRef)
		kindOf := g.Fun("reflect:kindOfType", []string{SortRef}, SortBV64)
		tref := g.Fresh(SortRef, "("+typeOf+" "+args[0].C[0]+")")
		switch name {
		case "Type":
			g.Assume(and(not(eq(tref, NilRef)), "(bvult "+tref+" "+refLit(AllocBase)+")"))
			return Val{T: rt, C: []string{bvLit(9, 32), tref}}, true
		case "Kind":
			return Val{T: rt, C: []string{g.Fresh(SortBV64, "("+kindOf+" "+tref+")")}}, true
		case "Uint":
			fn := g.Fun("reflect:Uint", []string{opaqueSort("reflect.Value")}, SortBV64)
			t := g.Fresh(SortBV64, "("+fn+" "+args[0].C[0]+")")
			k := "(" + kindOf + " " + tref + ")"
			// a value of kind Uint8/Uint16/Uint32 is below 2^8/2^16/2^32
			g.Assume(and(implies(eq(k, bvLit(8, 64)), "(bvult "+t+" "+bvLit(1<<8, 64)+")"), implies(eq(k, bvLit(9, 64)), "(bvult "+t+" "+bvLit(1<<16, 64)+")"),
				implies(eq(k, bvLit(10, 64)), "(bvult "+t+" "+bvLit(1<<32, 64)+")")))
			return Val{T: rt, C: []string{t}}, true
		}
		rc := x.comps(rt)
		if _, isBasic := rt.Underlying().(*types.Basic); isBasic && len(rc) == 1 && !isString(rt) {
			var terms, sorts []string
			okArgs := true
			for _, a := range args {
				cs := x.comps(a.T)
				if len(cs) != 1 || len(a.C) != 1 {
					okArgs = false
					break
				}
				terms = append(terms, a.C[0])
				sorts = append(sorts, cs[0].sort)
			}
			if okArgs {
				fn := g.Fun("reflect:"+name, sorts, rc[0].sort)
				return Val{T: rt, C: []string{g.Fresh(rc[0].sort, "("+fn+" "+strings.Join(terms, " ")+")")}}, true
			}
		}
		if _, isIface := rt.Underlying().(*types.Interface); isIface && name == "Type" {
			return x.nonNilError(rt, "reflect.Type"), true // the type of a value is never nil
		}
		return x.havocResult(rt, "reflect."+name), true
	}
	if full == "reflect.TypeOf" {
		x.note("trusted: reflect.TypeOf of a non-nil value is a non-nil Type")
		return x.nonNilError(rt, "reflect.TypeOf"), true
	}
	if r, ok := f.bigIntModel(n, callee, full, args, in); ok {
		return r, true
	}
	return Val{}, false
}

// allocSite records an obligation hook for allocations whose size comes from data
// (used by the C06 memory-proportionality contracts). The size is exposed to
// contracts through the obligation "alloc"; a function that wants its allocation
// checked states `//@ allocbound E`.
func (x *Exec) allocSite(f *frame, n *node, in *ssa.MakeSlice, ln string) {
	if x.allocBound == nil {
		return
	}
	x.allocBound(f, n, in, ln)
}
