package vc

import (
	"fmt"
	"go/constant"
	"go/types"
	"strings"

	"golang.org/x/tools/go/ssa"
)

// TrustedExternals documents, for the evidence file, the library functions whose
// behaviour the engine models directly (every one is an assumption, not a proof).
var TrustedExternals = map[string]string{
	"fmt.Sprintf":                           "returns some string; no effect on the heap",
	"fmt.Sprint":                            "returns some string; no effect on the heap",
	"fmt.Errorf":                            "returns a non-nil error; no effect on the heap",
	"errors.New":                            "returns a non-nil error; no effect on the heap",
	"math.Float64bits":                      "IEEE-754 bits of the argument (NaN payload unconstrained)",
	"math.Float32bits":                      "IEEE-754 bits of the argument (NaN payload unconstrained)",
	"math.Float64frombits":                  "IEEE-754 value of the bits",
	"math.Float32frombits":                  "IEEE-754 value of the bits",
	"math.IsNaN":                            "fp.isNaN",
	"math.IsInf":                            "fp.isInfinite with sign",
	"math.Signbit":                          "sign bit (of NaN: unconstrained)",
	"unicode/utf8.Valid":                    "uninterpreted predicate of the byte sequence",
	"unicode/utf8.ValidString":              "uninterpreted predicate of the byte sequence",
	"(encoding/binary.bigEndian).Uint32":    "big-endian fold of 4 bytes; panics if shorter",
	"(encoding/binary.bigEndian).Uint64":    "big-endian fold of 8 bytes; panics if shorter",
	"(encoding/binary.bigEndian).PutUint32": "big-endian store of 4 bytes; panics if shorter",
	"(encoding/binary.bigEndian).PutUint64": "big-endian store of 8 bytes; panics if shorter",
}

func (x *Exec) nonNilError(t types.Type, hint string) Val {
	v := x.havoc(t, hint)
	x.g.Assume(not(eq(v.C[0], bvLit(0, 32))))
	return v
}

// external models selected library functions. It returns handled=false for anything
// it does not know.
func (f *frame) external(n *node, callee *ssa.Function, full string, args []Val, in *ssa.Call) (Val, bool) {
	x := f.x
	g := x.g
	rt := resultType(callee.Signature)
	switch full {
	case "fmt.Sprintf", "fmt.Sprint", "fmt.Sprintln", "strconv.Itoa", "strconv.FormatInt", "strconv.FormatUint", "strconv.Quote":
		if t, ok := f.decimalText(n, full, args, in); ok {
			x.note("trusted model: strconv.FormatInt/FormatUint/Itoa (base 10) and fmt.Sprintf(\"%%d\", v) return the decimal text of the integer (same function as big.Int.String)")
			return t, true
		}
		x.note("library call %s: result is an unknown string", full)
		return x.havoc(rt, "str"), true
	case "strings.Index", "strings.LastIndex", "strings.IndexAny", "strings.LastIndexAny", "strings.IndexByte", "strings.LastIndexByte", "strings.IndexRune":
		// the result is -1 or a position inside the text at which the whole needle fits
		if len(args) == 2 && len(args[0].C) == 3 {
			x.note("trusted model: strings.Index and its variants return -1 or an index inside the text (with room for the substring searched for)")
			r := g.Const("stridx", SortBV64)
			room := args[0].C[2]
			if (full == "strings.Index" || full == "strings.LastIndex") && len(args[1].C) == 3 {
				// 0 <= r <= len(s)-len(sub), needs len(sub) <= len(s)
				g.Assume(or(eq(r, bvLit(^uint64(0), 64)),
					and("(bvule "+args[1].C[2]+" "+room+")", "(bvsge "+r+" "+bvLit(0, 64)+")", "(bvsle "+r+" (bvsub "+room+" "+args[1].C[2]+"))")))
				// a literal needle: where it is found the text has its bytes; when it is not found
				// the text does not end with it
				if lit := args[1]; lit.HasLit && len(lit.Lit) >= 1 && len(lit.Lit) <= 16 {
					s0, off := args[0].C[0], args[0].C[1]
					var at, tail []string
					n := uint64(len(lit.Lit))
					for i := 0; i < len(lit.Lit); i++ {
						at = append(at, eq("(select "+s0+" (bvadd "+off+" (bvadd "+r+" "+bvLit(uint64(i), 64)+")))", bvLit(uint64(lit.Lit[i]), 8)))
						tail = append(tail, eq("(select "+s0+" (bvadd "+off+" (bvadd (bvsub "+room+" "+bvLit(n, 64)+") "+bvLit(uint64(i), 64)+")))", bvLit(uint64(lit.Lit[i]), 8)))
					}
					g.Assume(implies(not(eq(r, bvLit(^uint64(0), 64))), and(at...)))
					g.Assume(implies(eq(r, bvLit(^uint64(0), 64)), not(and(append([]string{"(bvuge " + room + " " + bvLit(n, 64) + ")"}, tail...)...))))
				}
			} else {
				g.Assume(or(eq(r, bvLit(^uint64(0), 64)), and("(bvsge "+r+" "+bvLit(0, 64)+")", "(bvslt "+r+" "+room+")")))
			}
			return Val{T: rt, C: []string{r}}, true
		}
	case "strings.EqualFold", "strings.HasPrefix", "strings.HasSuffix", "strings.Contains":
		// pure predicates over two strings: the same operands give the same answer
		if len(args) == 2 && len(args[0].C) == 3 && len(args[1].C) == 3 {
			x.note("trusted model: %s is a function of its operands (uninterpreted)", full)
			ss := arrSort(SortBV64, SortBV8)
			fn := g.Fun("str:"+strings.TrimPrefix(full, "strings."), []string{ss, SortBV64, SortBV64, ss, SortBV64, SortBV64}, SortBool)
			t := g.Fresh(SortBool, "("+fn+" "+strings.Join(append(append([]string{}, args[0].C...), args[1].C...), " ")+")")
			return Val{T: rt, C: []string{t}}, true
		}
	case "strconv.ParseInt", "strconv.ParseUint":
		// a successful parse with a constant bit size yields a value of that size
		if len(args) == 3 && len(args[2].C) == 1 {
			if bits, w, ok := parseBV(args[2].C[0]); ok && w == 64 && bits >= 1 && bits <= 64 {
				res := x.havocResult(callee.Signature.Results(), "parseint")
				if len(res.Sub) == 2 && len(res.Sub[0].C) == 1 && len(res.Sub[1].C) >= 1 {
					x.note("trusted model: strconv.ParseInt/ParseUint with a constant bit size return a value of that size when they return no error")
					v := res.Sub[0].C[0]
					okErr := eq(res.Sub[1].C[0], bvLit(0, 32))
					if bits < 64 {
						if full == "strconv.ParseInt" {
							lo := ^uint64(0) << (bits - 1)
							g.Assume(implies(okErr, and("(bvsge "+v+" "+bvLit(lo, 64)+")", "(bvslt "+v+" "+bvLit(uint64(1)<<(bits-1), 64)+")")))
						} else {
							g.Assume(implies(okErr, "(bvult "+v+" "+bvLit(uint64(1)<<bits, 64)+")"))
						}
					}
					return res, true
				}
			}
		}
	case "fmt.Errorf", "errors.New", "golang.org/x/xerrors.Errorf", "golang.org/x/xerrors.New":
		x.note("library call %s: result is a non-nil error", full)
		return x.nonNilError(rt, "err"), true
	case "math.Float64frombits":
		return Val{T: rt, C: []string{g.Fresh(fpSort(types.Float64), "((_ to_fp 11 53) "+args[0].C[0]+")")}}, true
	case "math.Float32frombits":
		return Val{T: rt, C: []string{g.Fresh(fpSort(types.Float32), "((_ to_fp 8 24) "+args[0].C[0]+")")}}, true
	case "math.Float64bits":
		b := g.Const("f64bits", SortBV64)
		g.Assume(eq("((_ to_fp 11 53) "+b+")", args[0].C[0]))
		return Val{T: rt, C: []string{b}}, true
	case "math.Float32bits":
		b := g.Const("f32bits", bvSort(32))
		g.Assume(eq("((_ to_fp 8 24) "+b+")", args[0].C[0]))
		return Val{T: rt, C: []string{b}}, true
	case "math.IsNaN":
		return Val{T: rt, C: []string{g.Fresh(SortBool, "(fp.isNaN "+args[0].C[0]+")")}}, true
	case "math.IsInf":
		s := args[1].C[0]
		inf := "(fp.isInfinite " + args[0].C[0] + ")"
		pos := "(fp.isPositive " + args[0].C[0] + ")"
		z := bvLit(0, 64)
		t := and(inf, or(eq(s, z), and("(bvsgt "+s+" "+z+")", pos), and("(bvslt "+s+" "+z+")", not(pos))))
		return Val{T: rt, C: []string{g.Fresh(SortBool, t)}}, true
	case "math.Signbit":
		return Val{T: rt, C: []string{g.Fresh(SortBool, "(fp.isNegative "+args[0].C[0]+")")}}, true
	case "math.Inf":
		s := args[0].C[0]
		return Val{T: rt, C: []string{g.Fresh(fpSort(types.Float64), ite("(bvsge "+s+" "+bvLit(0, 64)+")", "(_ +oo 11 53)", "(_ -oo 11 53)"))}}, true
	case "math.NaN":
		return Val{T: rt, C: []string{"(_ NaN 11 53)"}}, true
	case "unicode/utf8.Valid":
		fn := g.Fun("utf8valid", []string{arrSort(SortBV64, SortBV8), SortBV64, SortBV64}, SortBool)
		s := args[0]
		arr := x.hget(f.heapFor(n, s), x.sliceKey(s)+"[]", SortBV8, SortBV64)
		return Val{T: rt, C: []string{g.Fresh(SortBool, "("+fn+" (select "+arr+" "+s.C[0]+") "+s.C[1]+" "+s.C[2]+")")}}, true
	case "unicode/utf8.ValidString":
		fn := g.Fun("utf8valid", []string{arrSort(SortBV64, SortBV8), SortBV64, SortBV64}, SortBool)
		s := args[0]
		return Val{T: rt, C: []string{g.Fresh(SortBool, "("+fn+" "+s.C[0]+" "+s.C[1]+" "+s.C[2]+")")}}, true
	case "(encoding/binary.bigEndian).Uint32", "(encoding/binary.bigEndian).Uint64", "(encoding/binary.bigEndian).Uint16":
		nb := 4
		if strings.HasSuffix(full, "64") {
			nb = 8
		} else if strings.HasSuffix(full, "16") {
			nb = 2
		}
		s := args[len(args)-1]
		x.safety(f, n, "index", "bigEndian", "(bvuge "+s.C[2]+" "+bvLit(uint64(nb), 64)+")", in.Pos())
		arr := x.hget(f.heapFor(n, s), x.sliceKey(s)+"[]", SortBV8, SortBV64)
		inner := g.Fresh(arrSort(SortBV64, SortBV8), "(select "+arr+" "+s.C[0]+")")
		var parts []string
		for i := 0; i < nb; i++ {
			parts = append(parts, "(select "+inner+" (bvadd "+s.C[1]+" "+bvLit(uint64(i), 64)+"))")
		}
		return Val{T: rt, C: []string{g.Fresh(bvSort(nb*8), "(concat "+strings.Join(parts, " ")+")")}}, true
	case "(encoding/binary.bigEndian).PutUint32", "(encoding/binary.bigEndian).PutUint64":
		nb := 4
		if strings.HasSuffix(full, "64") {
			nb = 8
		}
		s := args[len(args)-2]
		v := args[len(args)-1]
		x.safety(f, n, "index", "bigEndian", "(bvuge "+s.C[2]+" "+bvLit(uint64(nb), 64)+")", in.Pos())
		k := x.sliceKey(s) + "[]"
		arr := x.hget(n.heap, k, SortBV8, SortBV64)
		inner := "(select " + arr + " " + s.C[0] + ")"
		for i := 0; i < nb; i++ {
			hi := (nb-i)*8 - 1
			inner = fmt.Sprintf("(store %s (bvadd %s %s) ((_ extract %d %d) %s))", inner, s.C[1], bvLit(uint64(i), 64), hi, hi-7, v.C[0])
		}
		x.hset(n.heap, k, SortBV8, SortBV64, g.Fresh(heapArraySort(SortBV8, SortBV64), "(store "+arr+" "+s.C[0]+" "+inner+")"), s.C[0])
		for _, ep := range f.activeEpochs(n) {
			ep.written[k] = true
		}
		return Val{T: rt}, true
	}
	// time.Date: the same fields give the same instant (an uninterpreted function of its
	// arguments; what it normalises is not modelled)
	if full == "time.Date" && len(args) == 8 {
		ok := true
		var terms, sorts []string
		for _, a := range args {
			if len(a.C) != 1 {
				ok = false
				break
			}
			terms = append(terms, a.C[0])
			cs := x.comps(a.T)
			sorts = append(sorts, cs[0].sort)
		}
		if ok {
			x.note("trusted: time.Date is a pure function of its arguments")
			x.g.Raw("sort:"+opaqueSort("time.Time"), "(declare-sort "+opaqueSort("time.Time")+" 0)")
			fn := g.Fun("time:Date", sorts, opaqueSort("time.Time"))
			return Val{T: rt, C: []string{g.Fresh(opaqueSort("time.Time"), "("+fn+" "+strings.Join(terms, " ")+")")}}, true
		}
	}
	// time.Time getters: uninterpreted functions of the (opaque) time value, within the
	// ranges the library documents
	if strings.HasPrefix(full, "(time.Time).") && len(args) >= 1 && len(args[0].C) == 1 {
		type rng struct{ lo, hi int64 }
		ranges := map[string]rng{"Month": {1, 12}, "Day": {1, 31}, "Hour": {0, 23}, "Minute": {0, 59}, "Second": {0, 59}, "Nanosecond": {0, 999999999},
			"YearDay": {1, 366}, "Weekday": {0, 6}}
		name := strings.TrimPrefix(full, "(time.Time).")
		if name == "Year" || ranges[name].hi != 0 {
			x.note("trusted: time.Time getters are pure functions of the time value with the documented ranges (Month 1-12, Day 1-31, Hour 0-23, Minute/Second 0-59, Nanosecond 0-999999999)")
			x.g.Raw("sort:"+opaqueSort("time.Time"), "(declare-sort "+opaqueSort("time.Time")+" 0)")
			fn := g.Fun("time:"+name, []string{opaqueSort("time.Time")}, SortBV64)
			t := g.Fresh(SortBV64, "("+fn+" "+args[0].C[0]+")")
			if r, ok := ranges[name]; ok {
				g.Assume(and("(bvsle "+bvLit(uint64(r.lo), 64)+" "+t+")", "(bvsle "+t+" "+bvLit(uint64(r.hi), 64)+")"))
			}
			return Val{T: rt, C: []string{t}}, true
		}
	}
	// reflect.Value: observers are uninterpreted functions of the (opaque) value and the
	// arguments; setters are not modelled (their effect is on memory the engine does not
	// see) - contracts constrain the arguments they are called with (atcall)
	if strings.HasPrefix(full, "(reflect.Value).") && len(args) >= 1 && len(args[0].C) == 1 {
		name := strings.TrimPrefix(full, "(reflect.Value).")
		x.note("trusted: reflect.Value observers are pure functions of the value and their arguments; reflect setters are not modelled")
		x.g.Raw("sort:"+opaqueSort("reflect.Value"), "(declare-sort "+opaqueSort("reflect.Value")+" 0)")
		lenFn := g.Fun("reflect:Len", []string{opaqueSort("reflect.Value"), SortBV64}, SortBV64)
		capFn := g.Fun("reflect:Cap", []string{opaqueSort("reflect.Value"), SortBV64}, SortBV64)
		if strings.HasPrefix(name, "Set") {
			// a setter changes memory the engine does not see: every observer of mutable state
			// (of any value: values alias) is unknown afterwards, except for what the setter
			// itself determines (SetLen: the length; Set: length and capacity of the source)
			before := f.reflectVersion(n)
			after := f.bumpReflectVersion(n)
			v := args[0].C[0]
			switch name {
			case "SetLen":
				if len(args) == 2 && len(args[1].C) == 1 {
					nv := args[1].C[0]
					x.safety(f, n, "reflect", "SetLen", and("(bvsge "+nv+" "+bvLit(0, 64)+")", "(bvsle "+nv+" ("+capFn+" "+v+" "+before+"))"), in.Pos())
					g.Assume(implies(n.reach, and(eq("("+lenFn+" "+v+" "+after+")", nv), eq("("+capFn+" "+v+" "+after+")", "("+capFn+" "+v+" "+before+")"))))
				}
			case "Set":
				if len(args) == 2 && len(args[1].C) == 1 {
					src := args[1].C[0]
					g.Assume(implies(n.reach, and(eq("("+lenFn+" "+v+" "+after+")", "("+lenFn+" "+src+" "+before+")"), eq("("+capFn+" "+v+" "+after+")", "("+capFn+" "+src+" "+before+")"))))
				}
			}
			return Val{T: rt}, true
		}
		// the type of a value and its kind: Kind() is the kind of Type()
		typeOf := g.Fun("reflect:typeOf", []string{opaqueSort("reflect.Value")}, SortRef)
		kindOf := g.Fun("reflect:kindOfType", []string{SortRef}, SortBV64)
		tref := g.Fresh(SortRef, "("+typeOf+" "+args[0].C[0]+")")
		switch name {
		case "Type":
			g.Assume(and(not(eq(tref, NilRef)), "(bvult "+tref+" "+refLit(AllocBase)+")"))
			return Val{T: rt, C: []string{bvLit(9, 32), tref}}, true
		case "Kind":
			return Val{T: rt, C: []string{g.Fresh(SortBV64, "("+kindOf+" "+tref+")")}}, true
		case "Uint":
			fn := g.Fun("reflect:Uint", []string{opaqueSort("reflect.Value"), SortBV64}, SortBV64)
			t := g.Fresh(SortBV64, "("+fn+" "+args[0].C[0]+" "+f.reflectVersion(n)+")")
			k := "(" + kindOf + " " + tref + ")"
			// a value of kind Uint8/Uint16/Uint32 is below 2^8/2^16/2^32
			g.Assume(and(implies(eq(k, bvLit(8, 64)), "(bvult "+t+" "+bvLit(1<<8, 64)+")"), implies(eq(k, bvLit(9, 64)), "(bvult "+t+" "+bvLit(1<<16, 64)+")"),
				implies(eq(k, bvLit(10, 64)), "(bvult "+t+" "+bvLit(1<<32, 64)+")")))
			return Val{T: rt, C: []string{t}}, true
		}
		if name == "Index" && len(args) == 2 && len(args[1].C) == 1 && in != nil {
			// v.Index(i) panics unless 0 <= i < v.Len()
			i := args[1].C[0]
			x.safety(f, n, "reflect", "Index", and("(bvsge "+i+" "+bvLit(0, 64)+")", "(bvslt "+i+" ("+lenFn+" "+args[0].C[0]+" "+f.reflectVersion(n)+"))"), in.Pos())
		}
		rc := x.comps(rt)
		if _, isBasic := rt.Underlying().(*types.Basic); isBasic && len(rc) == 1 && !isString(rt) {
			var terms, sorts []string
			okArgs := true
			// what depends on the type alone is stable; everything else is read in the current
			// state of the (unseen) memory behind the values
			stable := map[string]bool{"NumField": true, "NumMethod": true, "CanSet": true, "CanAddr": true, "CanInterface": true, "IsValid": true,
				"OverflowInt": true, "OverflowUint": true, "OverflowFloat": true}
			for _, a := range args {
				cs := x.comps(a.T)
				if len(cs) != 1 || len(a.C) != 1 {
					okArgs = false
					break
				}
				terms = append(terms, a.C[0])
				sorts = append(sorts, cs[0].sort)
			}
			if okArgs {
				if !stable[name] {
					terms = append(terms, f.reflectVersion(n))
					sorts = append(sorts, SortBV64)
				}
				fn := g.Fun("reflect:"+name, sorts, rc[0].sort)
				t := g.Fresh(rc[0].sort, "("+fn+" "+strings.Join(terms, " ")+")")
				if name == "Len" || name == "Cap" {
					g.Assume(and("(bvsge "+t+" "+bvLit(0, 64)+")", "(bvslt "+t+" "+bvLit(1<<62, 64)+")"))
				}
				return Val{T: rt, C: []string{t}}, true
			}
		}
		if _, isIface := rt.Underlying().(*types.Interface); isIface && name == "Type" {
			return x.nonNilError(rt, "reflect.Type"), true // the type of a value is never nil
		}
		return x.havocResult(rt, "reflect."+name), true
	}
	switch full {
	case "reflect.Copy", "reflect.Append", "reflect.AppendSlice":
		// contents change; lengths and capacities of existing values do not
		x.note("trusted: reflect.Copy/Append change contents only (lengths and capacities of the values involved are unchanged)")
		before := f.reflectVersion(n)
		after := f.bumpReflectVersion(n)
		x.g.Raw("sort:"+opaqueSort("reflect.Value"), "(declare-sort "+opaqueSort("reflect.Value")+" 0)")
		lenFn := g.Fun("reflect:Len", []string{opaqueSort("reflect.Value"), SortBV64}, SortBV64)
		capFn := g.Fun("reflect:Cap", []string{opaqueSort("reflect.Value"), SortBV64}, SortBV64)
		if full == "reflect.Copy" {
			for _, a := range args {
				if len(a.C) == 1 {
					g.Assume(implies(n.reach, and(eq("("+lenFn+" "+a.C[0]+" "+after+")", "("+lenFn+" "+a.C[0]+" "+before+")"), eq("("+capFn+" "+a.C[0]+" "+after+")", "("+capFn+" "+a.C[0]+" "+before+")"))))
				}
			}
		}
		return x.havocResult(rt, "reflect"), true
	case "reflect.MakeSlice":
		if len(args) == 3 && len(args[1].C) == 1 && len(args[2].C) == 1 {
			x.note("trusted: reflect.MakeSlice(t, len, cap) returns a value of that length and capacity; panics unless 0 <= len <= cap")
			x.g.Raw("sort:"+opaqueSort("reflect.Value"), "(declare-sort "+opaqueSort("reflect.Value")+" 0)")
			lenFn := g.Fun("reflect:Len", []string{opaqueSort("reflect.Value"), SortBV64}, SortBV64)
			capFn := g.Fun("reflect:Cap", []string{opaqueSort("reflect.Value"), SortBV64}, SortBV64)
			if in != nil {
				x.safety(f, n, "reflect", "MakeSlice", and("(bvsge "+args[1].C[0]+" "+bvLit(0, 64)+")", "(bvsle "+args[1].C[0]+" "+args[2].C[0]+")"), in.Pos())
			}
			r := x.havocResult(rt, "reflect.MakeSlice")
			if len(r.C) == 1 {
				ver := f.reflectVersion(n)
				g.Assume(implies(n.reach, and(eq("("+lenFn+" "+r.C[0]+" "+ver+")", args[1].C[0]), eq("("+capFn+" "+r.C[0]+" "+ver+")", args[2].C[0]))))
			}
			return r, true
		}
	}
	if full == "reflect.TypeOf" {
		x.note("trusted: reflect.TypeOf of a non-nil value is a non-nil Type")
		return x.nonNilError(rt, "reflect.TypeOf"), true
	}
	if r, ok := f.bigIntModel(n, callee, full, args, in); ok {
		return r, true
	}
	return Val{}, false
}

// allocSite records an obligation hook for allocations whose size comes from data
// (used by the C06 memory-proportionality contracts). The size is exposed to
// contracts through the obligation "alloc"; a function that wants its allocation
// checked states `//@ allocbound E`.
func (x *Exec) allocSite(f *frame, n *node, in *ssa.MakeSlice, ln string) {
	if x.allocBound == nil {
		return
	}
	x.allocBound(f, n, in, ln)
}

// decimalText models the base-10 formatting functions of strconv and fmt.Sprintf("%d", v):
// strconv.FormatInt/FormatUint/Itoa in base 10 and fmt.Sprintf("%d", v) with one 64-bit
// integer operand all yield the decimal text of the same mathematical integer (the text
// function is the one of big.Int.String: uninterpreted, with a leading '-' exactly for
// negative values). A signed and an unsigned reading of the same bits therefore give the
// same text only when the value is below 2^63.
func (f *frame) decimalText(n *node, full string, args []Val, in *ssa.Call) (Val, bool) {
	x := f.x
	is64 := func(t types.Type) (signed, ok bool) {
		b, isB := t.Underlying().(*types.Basic)
		if !isB {
			return false, false
		}
		switch b.Kind() {
		case types.Int, types.Int64:
			return true, true
		case types.Uint, types.Uint64, types.Uintptr:
			return false, true
		}
		return false, false
	}
	text := func(v Val, signed bool) Val {
		ofI, ofU, _ := x.bigBridges()
		of := ofU
		if signed {
			of = ofI
		}
		return x.bigString(x.g.Fresh(SortInt, "("+of+" "+v.C[0]+")"))
	}
	base10 := func(v Val) bool { return len(v.C) == 1 && v.C[0] == bvLit(10, 64) }
	switch full {
	case "strconv.FormatInt":
		if len(args) == 2 && base10(args[1]) && len(args[0].C) == 1 {
			return text(args[0], true), true
		}
	case "strconv.FormatUint":
		if len(args) == 2 && base10(args[1]) && len(args[0].C) == 1 {
			return text(args[0], false), true
		}
	case "strconv.Itoa":
		if len(args) == 1 && len(args[0].C) == 1 {
			return text(args[0], true), true
		}
	case "fmt.Sprintf":
		if in == nil || len(in.Call.Args) != 2 {
			return Val{}, false
		}
		k, isK := in.Call.Args[0].(*ssa.Const)
		if !isK || k.Value == nil || k.Value.Kind() != constant.String {
			return Val{}, false
		}
		if constant.StringVal(k.Value) != "%d" {
			return f.sprintfUF(n, constant.StringVal(k.Value), in)
		}
		// the operand list: a slice of a fresh [1]interface{} whose element 0 was stored once
		sl, isS := in.Call.Args[1].(*ssa.Slice)
		if !isS {
			return Val{}, false
		}
		al, isA := sl.X.(*ssa.Alloc)
		if !isA {
			return Val{}, false
		}
		at, isArr := al.Type().Underlying().(*types.Pointer).Elem().Underlying().(*types.Array)
		if !isArr || at.Len() != 1 {
			return Val{}, false
		}
		var operand ssa.Value
		stores := 0
		for _, r := range *al.Referrers() {
			ia, isIA := r.(*ssa.IndexAddr)
			if !isIA {
				continue
			}
			for _, r2 := range *ia.Referrers() {
				if st, isSt := r2.(*ssa.Store); isSt && st.Addr == ia {
					stores++
					if mi, isMI := st.Val.(*ssa.MakeInterface); isMI {
						operand = mi.X
					}
				}
			}
		}
		if stores != 1 || operand == nil {
			return Val{}, false
		}
		signed, ok := is64(operand.Type())
		if !ok {
			return Val{}, false
		}
		v := f.lookup(n, operand)
		if len(v.C) != 1 {
			return Val{}, false
		}
		return text(v, signed), true
	}
	return Val{}, false
}

// sprintfOperands finds, in the SSA of the caller, the operands of a variadic call whose
// operand list is a slice of a fresh array filled once per element (the form the compiler
// gives `fmt.Sprintf(format, a, b, ...)`).
func sprintfOperands(in *ssa.Call) ([]ssa.Value, bool) {
	sl, isS := in.Call.Args[1].(*ssa.Slice)
	if !isS {
		return nil, false
	}
	al, isA := sl.X.(*ssa.Alloc)
	if !isA {
		return nil, false
	}
	at, isArr := al.Type().Underlying().(*types.Pointer).Elem().Underlying().(*types.Array)
	if !isArr {
		return nil, false
	}
	ops := make([]ssa.Value, at.Len())
	for _, r := range *al.Referrers() {
		ia, isIA := r.(*ssa.IndexAddr)
		if !isIA {
			continue
		}
		ik, isC := ia.Index.(*ssa.Const)
		if !isC || ik.Value == nil {
			return nil, false
		}
		idx, exact := constant.Int64Val(ik.Value)
		if !exact || idx < 0 || idx >= at.Len() {
			return nil, false
		}
		for _, r2 := range *ia.Referrers() {
			if st, isSt := r2.(*ssa.Store); isSt && st.Addr == ia {
				mi, isMI := st.Val.(*ssa.MakeInterface)
				if !isMI || ops[idx] != nil {
					return nil, false
				}
				ops[idx] = mi.X
			}
		}
	}
	for _, o := range ops {
		if o == nil {
			return nil, false
		}
	}
	return ops, true
}

// sprintfUF: fmt.Sprintf with a constant format whose operands are all strings, integers or
// booleans is a function of the format and the operand values (nothing else can influence
// the text). The function is uninterpreted: equal operands give equal text, nothing more.
func (f *frame) sprintfUF(n *node, format string, in *ssa.Call) (Val, bool) {
	x := f.x
	g := x.g
	ops, ok := sprintfOperands(in)
	if !ok || len(ops) == 0 {
		return Val{}, false
	}
	var terms, sorts []string
	for _, o := range ops {
		b, isB := o.Type().Underlying().(*types.Basic)
		if !isB || b.Info()&(types.IsString|types.IsInteger|types.IsBoolean) == 0 {
			return Val{}, false
		}
		v := f.lookup(n, o)
		cs := x.comps(o.Type())
		if len(cs) != len(v.C) {
			return Val{}, false
		}
		for i, c := range cs {
			terms = append(terms, v.C[i])
			sorts = append(sorts, c.sort)
		}
	}
	name := "fmt:Sprintf:" + hashOf(format, "")[:10]
	fa := g.Fun(name+".bytes", sorts, arrSort(SortBV64, SortBV8))
	fl := g.Fun(name+".len", sorts, SortBV64)
	arr := g.Fresh(arrSort(SortBV64, SortBV8), "("+fa+" "+strings.Join(terms, " ")+")")
	ln := g.Fresh(SortBV64, "("+fl+" "+strings.Join(terms, " ")+")")
	g.Assume("(bvult " + ln + " " + bvLit(1<<40, 64) + ")")
	x.note("trusted model: fmt.Sprintf(%q, ...) over strings, integers and booleans is a function of its operands", format)
	return Val{T: types.Typ[types.String], C: []string{arr, bvLit(0, 64), ln}}, true
}

// The memory behind reflect.Values is not modelled; a ghost version stands for its state.
// Observers of mutable state are functions of the value, their arguments and the version;
// every reflect setter (and every call that may modify anything) moves the version on. The
// cell lives at a fixed non-nil reference, so that a function with a `modifies` list that
// calls a setter fails its frame obligation (it must declare `modifies *`).
const reflectVersionKey = "reflect:version"

func reflectCell() string { return refLit(1) }

func (f *frame) reflectVersion(n *node) string {
	x := f.x
	arr := x.hget(n.heap, reflectVersionKey, SortBV64, "")
	return x.g.Fresh(SortBV64, "(select "+arr+" "+reflectCell()+")")
}

func (f *frame) bumpReflectVersion(n *node) string {
	x := f.x
	arr := x.hget(n.heap, reflectVersionKey, SortBV64, "")
	nv := x.g.Const("reflect.version", SortBV64)
	x.hset(n.heap, reflectVersionKey, SortBV64, "", x.g.Fresh(heapArraySort(SortBV64, ""), "(store "+arr+" "+reflectCell()+" "+nv+")"), reflectCell())
	for _, ep := range f.activeEpochs(n) {
		ep.written[reflectVersionKey] = true
	}
	return nv
}
