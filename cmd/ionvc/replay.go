package main

// Replay of solver counterexamples against the real code.
//
// For every undischarged obligation whose solver answer carries a model, the inputs of
// the function under contract are rebuilt as Go values, the REAL function (compiled from
// the tree being checked, through `go test -overlay`, nothing is written into the
// repository) is called on them, and the failed clause - the same generated Go function
// the verification condition was translated from - is evaluated on the outcome.
// A replay confirms a violation only when the real code misbehaves; anything else
// (model outside the replayable subset, clause holds on the concrete run, quantifier
// not refuted on the sampled instances) leaves the line `no-failing-input-found`.
//
// Replayable subset: plain functions (no receiver) whose parameters are integers,
// booleans and byte slices. Slice contents are not part of the extracted model; the
// replay fills them with a fixed pattern, so it is a real run of the real function but
// not necessarily the solver's run. Universal quantifiers in a clause are evaluated over
// a finite sample that always includes the solver's witness for the bound variable.

import (
	"context"
	"encoding/json"
	"fmt"
	"os"
	"os/exec"
	"path/filepath"
	"regexp"
	"sort"
	"strconv"
	"strings"
	"time"

	"ionvc/internal/vc"
)

type replayCase struct {
	run     *targetRun
	res     *vc.OblResult
	id      int
	skip    string // non-empty: not replayable, with the reason
	inputs  []string
	outcome string
}

var intTypes = map[string]bool{"uint64": true, "int64": true, "int": true, "uint": true, "byte": true, "uint8": true, "int8": true,
	"int16": true, "uint16": true, "int32": true, "uint32": true, "rune": true, "uintptr": true}

// modelValue parses an SMT bit-vector or boolean literal.
func modelValue(s string) (uint64, bool) {
	s = strings.TrimSpace(s)
	switch {
	case s == "true":
		return 1, true
	case s == "false":
		return 0, true
	case strings.HasPrefix(s, "#x"):
		v, err := strconv.ParseUint(s[2:], 16, 64)
		return v, err == nil
	case strings.HasPrefix(s, "#b"):
		v, err := strconv.ParseUint(s[2:], 2, 64)
		return v, err == nil
	case strings.HasPrefix(s, "(_ bv"):
		f := strings.Fields(strings.TrimPrefix(s, "(_ bv"))
		if len(f) > 0 {
			v, err := strconv.ParseUint(f[0], 10, 64)
			return v, err == nil
		}
	}
	return 0, false
}

var reBang = regexp.MustCompile(`![0-9]+$`)

// normModel strips the quoting and the freshness suffix of the model's constant names.
func normModel(m map[string]string) map[string]string {
	out := map[string]string{}
	for k, v := range m {
		k = strings.Trim(k, "|")
		k = reBang.ReplaceAllString(k, "")
		out[k] = v
	}
	return out
}

const maxReplaySlice = 1 << 20

// build renders the Go source of one replay case, or sets c.skip.
func (c *replayCase) build() string {
	ctr := c.run.c
	o := c.res.Obl
	if ctr.Recv != nil {
		c.skip = "methods are outside the replayable subset"
		return ""
	}
	if o.Kind != "post" && o.Kind != "safe" {
		c.skip = "obligation kind " + o.Kind + " has no replay"
		return ""
	}
	if o.Kind == "post" && (o.Clause == nil || o.Clause.GoFunc == "") {
		c.skip = "no clause function"
		return ""
	}
	m := normModel(c.res.Model)
	var b strings.Builder
	fmt.Fprintf(&b, "func vcReplayCase%d() (outcome string) {\n\tphase := \"call\"\n", c.id)
	b.WriteString("\tdefer func() {\n\t\tif r := recover(); r != nil {\n\t\t\toutcome = fmt.Sprintf(\"PANIC[%s] %v\", phase, r)\n\t\t}\n\t}()\n")
	var names, olds []string
	for _, p := range ctr.Params {
		if p.Name == "" || p.Name == "_" {
			c.skip = "unnamed parameter"
			return ""
		}
		switch {
		case intTypes[p.Type]:
			v, ok := modelValue(m["in."+p.Name])
			if !ok {
				c.skip = "no model value for " + p.Name
				return ""
			}
			fmt.Fprintf(&b, "\t%s := %s(vcReplayU(%#x))\n", p.Name, p.Type, v)
			c.inputs = append(c.inputs, fmt.Sprintf("%s = %s(%#x)", p.Name, p.Type, v))
			fmt.Fprintf(&b, "\t%s__old := %s\n", p.Name, p.Name)
		case p.Type == "bool":
			v, ok := modelValue(m["in."+p.Name])
			if !ok {
				c.skip = "no model value for " + p.Name
				return ""
			}
			fmt.Fprintf(&b, "\t%s := vcReplayU(%d) != 0\n\t%s__old := %s\n", p.Name, v, p.Name, p.Name)
			c.inputs = append(c.inputs, fmt.Sprintf("%s = %v", p.Name, v != 0))
		case p.Type == "[]byte" || p.Type == "[]uint8":
			n, ok := modelValue(m["in."+p.Name+".len"])
			if !ok {
				c.skip = "no model value for len(" + p.Name + ")"
				return ""
			}
			if n > maxReplaySlice {
				c.skip = fmt.Sprintf("the model needs len(%s) = %d, above the replay limit of %d bytes", p.Name, n, maxReplaySlice)
				return ""
			}
			fmt.Fprintf(&b, "\t%s := vcReplayBytes(%d)\n\t%s__old := append([]byte(nil), %s...)\n", p.Name, n, p.Name, p.Name)
			c.inputs = append(c.inputs, fmt.Sprintf("%s = %d bytes, b[i] = byte(i*31+7), cap == len", p.Name, n))
		default:
			c.skip = "parameter type " + p.Type + " is outside the replayable subset"
			return ""
		}
		fmt.Fprintf(&b, "\t_ = %s__old\n", p.Name)
		names = append(names, p.Name)
		olds = append(olds, p.Name+"__old")
	}
	// sample for universal quantifiers: small values, boundaries and the solver's witnesses
	var wit []string
	var ks []string
	for k := range m {
		ks = append(ks, k)
	}
	sort.Strings(ks)
	for _, k := range ks {
		if strings.HasPrefix(k, "forall.") && o.Clause != nil && o.Clause.CaseVar != "" {
			if v, ok := modelValue(m[k]); ok {
				wit = append(wit, fmt.Sprintf("%#x", v))
				c.inputs = append(c.inputs, fmt.Sprintf("forall %s: witness %#x", strings.TrimPrefix(k, "forall."), v))
			}
		}
	}
	fmt.Fprintf(&b, "\tvcReplaySetSample(%s)\n", strings.Join(wit, ", "))
	for _, r := range ctr.Requires {
		fmt.Fprintf(&b, "\tphase = \"requires\"\n\tif !%s(%s) {\n\t\treturn \"REQUIRES-NOT-MET %s\"\n\t}\n", r.GoFunc,
			strings.Join(append(append([]string{}, names...), olds...), ", "), strconv.Quote(r.Text)[1:len(strconv.Quote(r.Text))-1])
	}
	var res []string
	for _, r := range ctr.Results {
		res = append(res, r.Name)
	}
	fn := ctr.FuncID
	b.WriteString("\tphase = \"call\"\n")
	if len(res) > 0 {
		fmt.Fprintf(&b, "\t%s := %s(%s)\n", strings.Join(res, ", "), fn, strings.Join(names, ", "))
		for _, r := range res {
			fmt.Fprintf(&b, "\t_ = %s\n", r)
		}
	} else {
		fmt.Fprintf(&b, "\t%s(%s)\n", fn, strings.Join(names, ", "))
	}
	if o.Kind == "post" {
		args := append(append(append([]string{}, names...), res...), olds...)
		fmt.Fprintf(&b, "\tphase = \"clause\"\n\tif !%s(%s) {\n\t\treturn fmt.Sprintf(\"CLAUSE-FALSE results: %%v\", []interface{}{%s})\n\t}\n",
			o.Clause.GoFunc, strings.Join(args, ", "), strings.Join(res, ", "))
	}
	b.WriteString("\treturn \"HOLDS\"\n}\n\n")
	return b.String()
}

// executable versions of the quantifier helpers (the repository's spec file defines them
// as `return true`, which is all the translator needs)
var reForall = regexp.MustCompile(`(?m)^func (vcForall\w+)\(f func\((\w+)\) bool\) bool\s*\{ return true \}\s*$`)

const replaySupport = `
// ---- replay support (added by ionvc in the overlay copy only) ----

var vcReplaySample []uint64

func vcReplaySetSample(witnesses ...uint64) {
	vcReplaySample = vcReplaySample[:0]
	for i := uint64(0); i < 300; i++ {
		vcReplaySample = append(vcReplaySample, i)
	}
	for _, s := range []uint{7, 8, 15, 16, 31, 32, 62, 63} {
		vcReplaySample = append(vcReplaySample, uint64(1)<<s-1, uint64(1)<<s)
	}
	vcReplaySample = append(vcReplaySample, ^uint64(0), ^uint64(0)-1)
	vcReplaySample = append(vcReplaySample, witnesses...)
}

func vcReplayU(x uint64) uint64 { return x }

func vcReplayBytes(n int) []byte {
	b := make([]byte, n)
	for i := range b {
		b[i] = byte(i*31 + 7)
	}
	return b
}
`

// replayBatch runs every replayable case in one `go test` of the real package.
func replayBatch(w *vc.World, repo string, cases []*replayCase, tmp string) string {
	var body strings.Builder
	var ids []int
	for _, c := range cases {
		src := c.build()
		if c.skip != "" {
			continue
		}
		body.WriteString(src)
		ids = append(ids, c.id)
	}
	if len(ids) == 0 {
		return ""
	}
	var test strings.Builder
	test.WriteString("//go:build verif\n// +build verif\n\npackage ion\n\nimport (\n\t\"fmt\"\n\t\"testing\"\n)\n\n")
	test.WriteString(body.String())
	test.WriteString("func TestVerifReplay(t *testing.T) {\n")
	for _, id := range ids {
		fmt.Fprintf(&test, "\tfmt.Printf(\"VCREPLAY %d %%s\\n\", vcReplayCase%d())\n", id, id)
	}
	test.WriteString("}\n")

	ionDir := filepath.Join(repo, "ion")
	files := map[string][]byte{}
	for k, v := range w.Overlay {
		files[k] = v
	}
	specPath := filepath.Join(ionDir, vc.SpecFile)
	spec, ok := files[specPath]
	if !ok {
		var err error
		spec, err = os.ReadFile(specPath)
		if err != nil {
			return "replay: " + err.Error()
		}
	}
	exe := reForall.ReplaceAllStringFunc(string(spec), func(line string) string {
		m := reForall.FindStringSubmatch(line)
		if m[2] == "bool" {
			return fmt.Sprintf("func %s(f func(bool) bool) bool { return f(false) && f(true) }", m[1])
		}
		return fmt.Sprintf("func %s(f func(%s) bool) bool {\n\tfor _, v := range vcReplaySample {\n\t\tif !f(%s(v)) {\n\t\t\treturn false\n\t\t}\n\t}\n\treturn true\n}", m[1], m[2], m[2])
	})
	files[specPath] = []byte(exe + replaySupport)
	files[filepath.Join(ionDir, "zz_verif_replay_test.go")] = []byte(test.String())

	dir := filepath.Join(tmp, "replay")
	os.MkdirAll(dir, 0o755)
	ov := struct{ Replace map[string]string }{map[string]string{}}
	n := 0
	for path, data := range files {
		n++
		f := filepath.Join(dir, fmt.Sprintf("f%d_%s", n, filepath.Base(path)))
		os.WriteFile(f, data, 0o644)
		ov.Replace[path] = f
	}
	ovData, _ := json.Marshal(ov)
	ovPath := filepath.Join(dir, "overlay.json")
	os.WriteFile(ovPath, ovData, 0o644)

	ctx, cancel := context.WithTimeout(context.Background(), 240*time.Second)
	defer cancel()
	cmd := exec.CommandContext(ctx, "go", "test", "-tags", "verif", "-overlay", ovPath, "-vet=off", "-count=1", "-timeout", "120s",
		"-run", "^TestVerifReplay$", "-v", "./ion")
	cmd.Dir = repo
	cmd.Env = append(os.Environ(), "GOFLAGS=-mod=mod", "GOPROXY=off", "GOSUMDB=off", "GOTOOLCHAIN=local", "GOWORK=off")
	out, _ := cmd.CombinedOutput()
	got := map[int]string{}
	for _, line := range strings.Split(string(out), "\n") {
		if strings.HasPrefix(line, "VCREPLAY ") {
			f := strings.SplitN(line, " ", 3)
			if id, err := strconv.Atoi(f[1]); err == nil && len(f) == 3 {
				got[id] = f[2]
			}
		}
	}
	for _, c := range cases {
		if c.skip == "" {
			c.outcome = got[c.id]
		}
	}
	if len(got) == 0 {
		s := string(out)
		if len(s) > 1500 {
			s = s[len(s)-1500:]
		}
		return "replay run produced no outcome:\n" + s
	}
	return ""
}

// confirmed reports whether the real code misbehaved in the way the obligation says.
func (c *replayCase) confirmed() bool {
	switch c.res.Obl.Kind {
	case "safe":
		return strings.HasPrefix(c.outcome, "PANIC[call]")
	case "post":
		// a clause that cannot even be evaluated on the real result (e.g. it names a byte the
		// result does not have) is not satisfied by it
		return strings.HasPrefix(c.outcome, "CLAUSE-FALSE") || strings.HasPrefix(c.outcome, "PANIC[clause]")
	}
	return false
}
