package main

import (
	"flag"
	"fmt"
	"os"
	"runtime/pprof"
	"sort"
	"strings"
	"time"

	"ionvc/internal/vc"
)

func main() {
	if pf := os.Getenv("IONVC_PROF"); pf != "" {
		f, _ := os.Create(pf)
		pprof.StartCPUProfile(f)
		defer pprof.StopCPUProfile()
	}
	if len(os.Args) < 2 {
		fmt.Fprintln(os.Stderr, "usage: ionvc dev|check ...")
		os.Exit(2)
	}
	switch os.Args[1] {
	case "dev":
		dev(os.Args[2:])
		pprof.StopCPUProfile()
	case "check":
		os.Exit(check(os.Args[2:]))
	case "lock":
		os.Exit(lockCmd(os.Args[2:]))
	default:
		fmt.Fprintln(os.Stderr, "unknown command", os.Args[1])
		os.Exit(2)
	}
}

// dev: verify selected functions and print every obligation (development aid).
func dev(args []string) {
	fs := flag.NewFlagSet("dev", flag.ExitOnError)
	repo := fs.String("repo", "/repo", "repository root")
	fn := fs.String("func", "", "comma-separated function ids (substring match); empty = all")
	prop := fs.String("prop", "", "only contracts mentioning this property")
	dump := fs.String("dump", "", "write SMT scripts to this directory")
	timeout := fs.Int("t", 10, "solver timeout per obligation (s)")
	verbose := fs.Bool("v", false, "print notes")
	genOnly := fs.Bool("gen", false, "generate only: list the obligations without solving")
	mutate := fs.String("mutate", "", "file§old§new: verify with this textual replacement applied in an overlay")
	fs.Parse(args)
	t0 := time.Now()
	var ov map[string][]byte
	if *mutate != "" {
		p := strings.SplitN(*mutate, "§", 3)
		src, err := os.ReadFile(*repo + "/" + p[0])
		if err != nil {
			panic(err)
		}
		m := strings.Replace(string(src), p[1], p[2], 1)
		if m == string(src) {
			fmt.Fprintln(os.Stderr, "mutation did not apply")
			os.Exit(2)
		}
		ov = map[string][]byte{*repo + "/" + p[0]: []byte(m)}
	}
	w, err := vc.Load(*repo, ov)
	if err != nil {
		fmt.Fprintln(os.Stderr, "load:", err)
		os.Exit(2)
	}
	for _, e := range w.Errors {
		fmt.Println("CONTRACT ERROR:", e)
	}
	fmt.Printf("loaded in %.1fs, %d contract blocks\n", time.Since(t0).Seconds(), len(w.Contracts))
	opts := &vc.SolveOpts{TimeoutS: *timeout, TmpDir: os.TempDir() + "/ionvc-dev", Sem: make(chan struct{}, 16)}
	opts.SlowHints = vc.LoadSlowHints("/verif/slow_hints.json")
	sel := strings.Split(*fn, ",")
	tot, okc := 0, 0
	for _, c := range w.Contracts {
		if c.Iface || c.Trusted || c.ModelOf != "" || c.OpaqueFn != "" {
			continue
		}
		if *fn != "" {
			m := false
			for _, s := range sel {
				if strings.Contains(c.FuncID, s) {
					m = true
				}
			}
			if !m {
				continue
			}
		}
		if *prop != "" && !hasProp(c, *prop) {
			continue
		}
		t1 := time.Now()
		tr := w.Verify(c)
		gen := time.Since(t1).Seconds()
		if tr.Unsupported != "" {
			fmt.Printf("== %s: UNSUPPORTED: %s\n", tr.Name, tr.Unsupported)
			continue
		}
		if *dump != "" {
			os.MkdirAll(*dump, 0o755)
			var sb strings.Builder
			sb.WriteString(tr.Script)
			for _, o := range tr.Obls {
				fmt.Fprintf(&sb, "; %s\n(push 1)\n(assert %s)\n(check-sat)\n(pop 1)\n", o.Name, o.Cond)
			}
			os.WriteFile(*dump+"/"+sanitize(tr.Name)+".smt2", []byte(sb.String()), 0o644)
			for _, o := range tr.Obls {
				os.WriteFile(*dump+"/"+sanitize(o.Name)+".smt2", []byte(tr.ScriptFor(o.Cond)+"(assert "+o.Cond+")\n(check-sat)\n"), 0o644)
			}
		}
		if *genOnly {
			fmt.Printf("== %s: %d obligations, gen %.2fs (%d KB)\n", tr.Name, len(tr.Obls), gen, tr.Size/1024)
			for _, o := range tr.Obls {
				fmt.Printf("   %s %v\n", o.Name, o.Props)
			}
			continue
		}
		t2 := time.Now()
		rs := vc.Solve(tr, opts)
		fmt.Printf("== %s: %d obligations, gen %.2fs (%d KB), solve %.2fs\n", tr.Name, len(tr.Obls), gen, tr.Size/1024, time.Since(t2).Seconds())
		for _, r := range rs {
			tot++
			mark := "ok  "
			if !r.OK() {
				mark = "FAIL"
			} else {
				okc++
			}
			fmt.Printf("   %s %-8s %-7s %5.2fs %s %v\n", mark, r.Status, r.Solver, r.Time, r.Obl.Name, r.Obl.Props)
			if !r.OK() {
				if r.Obl.Pos.IsValid() {
					fmt.Printf("          at %s:%d\n", r.Obl.Pos.Filename, r.Obl.Pos.Line)
				}
				if len(r.Model) > 0 {
					var ks []string
					for k := range r.Model {
						ks = append(ks, k)
					}
					sort.Strings(ks)
					for _, k := range ks {
						fmt.Printf("          %s = %s\n", k, r.Model[k])
					}
				}
				if r.Raw != "" {
					fmt.Printf("          %s\n", strings.ReplaceAll(r.Raw, "\n", "\n          "))
				}
			}
		}
		if *verbose {
			for _, n := range tr.Notes {
				fmt.Println("   note:", n)
			}
		}
	}
	fmt.Printf("total %d obligations, %d ok, %.1fs\n", tot, okc, time.Since(t0).Seconds())
}

func hasProp(c *vc.Contract, p string) bool {
	for _, cl := range c.AllClauses() {
		for _, q := range cl.Props {
			if q == p {
				return true
			}
		}
	}
	for _, q := range append(append([]string{}, c.Safe...), c.AllocProps...) {
		if q == p {
			return true
		}
	}
	return false
}

func sanitize(s string) string {
	r := strings.NewReplacer("(", "", ")", "", "*", "P", ":", "_", "/", "_", " ", "_")
	return r.Replace(s)
}
