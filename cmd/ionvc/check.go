package main

import (
	"encoding/json"
	"flag"
	"fmt"
	"os"
	"path/filepath"
	"sort"
	"strconv"
	"strings"
	"sync"
	"time"

	"ionvc/internal/vc"
)

type knownFinding struct {
	Property   string `json:"property"`
	Obligation string `json:"obligation"`
	What       string `json:"what"`
	Witness    string `json:"witness,omitempty"`
	Status     string `json:"status,omitempty"` // "" = open finding; "fixed" entries suppress nothing
	Commit     string `json:"commit,omitempty"`
}

type evidence struct {
	PropertyID  string                 `json:"property_id"`
	Tier        string                 `json:"tier"`
	Seed        int                    `json:"seed"`
	Level       string                 `json:"level"`
	Coverage    map[string]interface{} `json:"coverage"`
	Assumptions []string               `json:"assumptions"`
	WallS       float64                `json:"wall_s"`
	Violations  int                    `json:"violations"`
}

type lockFile map[string]map[string]int // property -> target -> minimum number of obligations

func readJSON(path string, v interface{}) error {
	data, err := os.ReadFile(path)
	if err != nil {
		return err
	}
	return json.Unmarshal(data, v)
}

type targetRun struct {
	c   *vc.Contract
	tr  *vc.TargetResult
	rs  []*vc.OblResult
	gen float64
	sol float64
}

func runTargets(w *vc.World, cs []*vc.Contract, opts *vc.SolveOpts, par int) []*targetRun {
	runs := make([]*targetRun, len(cs))
	var wg sync.WaitGroup
	sem := make(chan struct{}, par)
	for i, c := range cs {
		i, c := i, c
		wg.Add(1)
		go func() {
			defer wg.Done()
			sem <- struct{}{}
			t1 := time.Now()
			tr := w.Verify(c)
			gen := time.Since(t1).Seconds()
			<-sem
			t2 := time.Now()
			var rs []*vc.OblResult
			if tr.Unsupported == "" {
				rs = vc.Solve(tr, opts)
			}
			runs[i] = &targetRun{c, tr, rs, gen, time.Since(t2).Seconds()}
		}()
	}
	wg.Wait()
	return runs
}

func check(args []string) int {
	fs := flag.NewFlagSet("check", flag.ExitOnError)
	repo := fs.String("repo", "/repo", "repository root")
	verif := fs.String("verif", "/verif", "verification directory")
	prop := fs.String("prop", "", "property id")
	tier := fs.String("tier", "quick", "quick or thorough")
	noEvidence := fs.Bool("no-evidence", false, "do not write the evidence file")
	mutate := fs.String("mutate", "", "self-test only: file§old§new, verify the tree with this textual replacement applied in an overlay")
	fs.Parse(args)
	if *prop == "" {
		fmt.Fprintln(os.Stderr, "check: -prop required")
		return 2
	}
	if t := os.Getenv("VERIF_TIER"); t == "quick" || t == "thorough" {
		*tier = t
	}
	seed, _ := strconv.Atoi(os.Getenv("VERIF_SEED"))
	t0 := time.Now()
	replayDir := filepath.Join(*verif, "replays")
	os.MkdirAll(replayDir, 0o755)
	violations := 0
	violation := func(replay string, extra string) {
		violations++
		fmt.Printf("VIOLATION property=%s replay=%s%s\n", *prop, replay, extra)
	}

	var ov map[string][]byte
	if *mutate != "" {
		p := strings.SplitN(*mutate, "§", 3)
		src, err := os.ReadFile(filepath.Join(*repo, p[0]))
		if err != nil || len(p) != 3 || !strings.Contains(string(src), p[1]) {
			fmt.Fprintln(os.Stderr, "check: mutation does not apply")
			return 2
		}
		ov = map[string][]byte{filepath.Join(*repo, p[0]): []byte(strings.Replace(string(src), p[1], p[2], 1))}
		*noEvidence = true
		replayDir = filepath.Join(os.TempDir(), "ionvc-selftest-replays")
		os.MkdirAll(replayDir, 0o755)
	}
	w, err := vc.Load(*repo, ov)
	if err != nil {
		// the tree does not load (it does not compile under the verif tag, or a contract
		// expression no longer type-checks against the code): nothing can be proved
		p := filepath.Join(replayDir, *prop+"_load.txt")
		os.WriteFile(p, []byte("obligation: load\n\n"+err.Error()+"\n"), 0o644)
		violation(p, " no-failing-input-found")
		writeEvidence(*verif, *prop, *tier, seed, nil, nil, nil, time.Since(t0).Seconds(), violations, *noEvidence, w)
		return 1
	}
	timeout := 10
	if *tier == "thorough" {
		timeout = 60
	}
	vc.QuickTier = *tier != "thorough"
	tmp, _ := os.MkdirTemp("", "ionvc-")
	defer os.RemoveAll(tmp)
	opts := &vc.SolveOpts{TimeoutS: timeout, TmpDir: tmp, Sem: make(chan struct{}, 16)}
	opts.SlowHints = vc.LoadSlowHints(filepath.Join(*verif, "slow_hints.json"))
	// Solver answers are cached across the property checks of one tree, keyed by the hash of
	// the complete (sliced) SMT query: the verification conditions are regenerated from the
	// source on every run, and only a byte-identical query reuses an earlier `unsat`.
	opts.CacheDir = filepath.Join(*verif, ".cache")
	if d := os.Getenv("IONVC_CACHE"); d == "off" {
		opts.CacheDir = ""
	} else if d != "" {
		opts.CacheDir = d
	}
	if *mutate != "" {
		opts.CacheDir = ""
	}

	var kfs []knownFinding
	readJSON(filepath.Join(*verif, "known_findings.json"), &kfs)
	known := map[string]*knownFinding{}
	for i := range kfs {
		if kfs[i].Property == *prop && kfs[i].Status != "fixed" {
			known[kfs[i].Obligation] = &kfs[i]
		}
	}
	var lock lockFile
	readJSON(filepath.Join(*verif, "obligations.lock.json"), &lock)

	for _, e := range w.Errors {
		p := filepath.Join(replayDir, *prop+"_contract.txt")
		os.WriteFile(p, []byte("obligation: contract-attaches\n\n"+strings.Join(w.Errors, "\n")+"\n"), 0o644)
		_ = e
		violation(p, " no-failing-input-found")
		break
	}

	var cs []*vc.Contract
	for _, c := range w.Contracts {
		if c.Iface || c.Trusted || c.ModelOf != "" || c.OpaqueFn != "" {
			continue
		}
		if hasProp(c, *prop) {
			cs = append(cs, c)
		}
	}
	runs := runTargets(w, cs, opts, 8)
	// C18: the shared-state frame obligations are decided by the flow analysis over go/ssa
	var frameObls []vc.FrameObligation
	if *prop == "C18" {
		frameObls = vc.FrameScan(w)
	}
	// C12, C19: no error returned by a callee is dropped (one obligation per call site)
	if *prop == "C12" || *prop == "C19" {
		frameObls = append(frameObls, vc.ErrPropScan(w)...)
	}
	// thorough: every proof is put to a second, independent solver
	secondAgreed, secondUndecided := 0, 0
	if *tier == "thorough" {
		for _, r := range runs {
			if r.tr.Unsupported != "" {
				continue
			}
			var mine []*vc.OblResult
			for _, or := range r.rs {
				if oblHasProp(or.Obl, *prop) {
					mine = append(mine, or)
				}
			}
			a, u, conflicts := vc.CrossCheck(r.tr, mine, opts, 30)
			secondAgreed += a
			secondUndecided += u
			for _, c := range conflicts {
				p := filepath.Join(replayDir, *prop+"_solver_disagreement.txt")
				os.WriteFile(p, []byte("obligation: solver-agreement\n\n"+strings.Join(conflicts, "\n")+"\n"), 0o644)
				_ = c
				violation(p, " no-failing-input-found")
				break
			}
		}
	}

	total, discharged := 0, 0
	byBackend := map[string]int{}
	solverTime := 0.0
	var samples []interface{}
	var funcs []string
	var knownPrinted []string
	var unproved []string
	var failed []*replayCase
	notes := map[string]bool{}
	counts := map[string]int{}
	for _, r := range runs {
		funcs = append(funcs, r.tr.Name)
		for _, n := range r.tr.Notes {
			notes[n] = true
		}
		if r.tr.Unsupported != "" {
			p := filepath.Join(replayDir, *prop+"_"+sanitize(r.tr.Name)+"_unsupported.txt")
			os.WriteFile(p, []byte(fmt.Sprintf("obligation: %s:translate\n\nthe function left the verifiable subset: %s\n", r.tr.Name, r.tr.Unsupported)), 0o644)
			violation(p, " no-failing-input-found")
			continue
		}
		counts[r.tr.Name] = lockCount(r.tr.Obls, *prop)
		for _, or := range r.rs {
			if !oblHasProp(or.Obl, *prop) {
				continue
			}
			total++
			solverTime += or.Time
			if or.OK() {
				discharged++
				byBackend[or.Solver]++
				if len(samples) < 6 && or.Obl.Kind != "safe" {
					samples = append(samples, map[string]interface{}{"obligation": or.Obl.Name, "kind": or.Obl.Kind, "clause": or.Obl.Detail,
						"status": or.Status, "backend": or.Solver})
				}
				continue
			}
			if kf, ok := known[or.Obl.Name]; ok {
				fmt.Printf("KNOWN-FINDING: property=%s %s [%s]\n", *prop, kf.What, or.Obl.Name)
				knownPrinted = append(knownPrinted, or.Obl.Name+": "+kf.What)
				continue
			}
			unproved = append(unproved, or.Obl.Name)
			failed = append(failed, &replayCase{run: r, res: or, id: len(failed)})
		}
	}
	errpropSamples := 0
	for _, fo := range frameObls {
		total++
		backend, kind, what := "ssa-frame-analysis", "frame", "frame (shared state is not written after construction)"
		if fo.Kind == "errprop" {
			backend, kind, what = "ssa-errprop-analysis", "errprop", "errprop (the error returned by a callee is not dropped)"
		}
		if fo.OK {
			discharged++
			byBackend[backend]++
			if len(samples) < 6 && (fo.Kind != "errprop" || errpropSamples < 2) {
				if fo.Kind == "errprop" {
					errpropSamples++
				}
				samples = append(samples, map[string]interface{}{"obligation": fo.Name, "kind": kind, "status": "discharged", "backend": backend, "note": fo.Detail})
			}
			if fo.Kind == "errprop" && strings.Contains(fo.Detail, "exempt") {
				notes["error explicitly discarded in the source (exempt from errprop): "+fo.Name] = true
			}
			continue
		}
		if kf, ok := known[fo.Name]; ok {
			fmt.Printf("KNOWN-FINDING: property=%s %s [%s]\n", *prop, kf.What, fo.Name)
			knownPrinted = append(knownPrinted, fo.Name+": "+kf.What)
			continue
		}
		unproved = append(unproved, fo.Name)
		p := filepath.Join(replayDir, *prop+"_"+sanitize(fo.Name)+".txt")
		os.WriteFile(p, []byte(fmt.Sprintf("obligation: %s\nkind: "+what+"\nproperty: %s\nfunction: %s\nposition: %s\n\n"+
			"the analysis reports:\n  %s\n\nno solver is involved: the obligation is decided by a conservative flow analysis over go/ssa, "+
			"so there is no model to replay\n", fo.Name, *prop, fo.Func, fo.Pos, strings.ReplaceAll(fo.Detail, "; ", "\n  "))), 0o644)
		violation(p, " no-failing-input-found")
	}
	// replay every counterexample in one run of the real package, then report
	var withModel []*replayCase
	for _, fc := range failed {
		if len(fc.res.Model) > 0 && !fc.res.Obl.Cover {
			withModel = append(withModel, fc)
		} else {
			fc.skip = "the solver gave no model"
		}
	}
	replayErr := ""
	if len(withModel) > 0 {
		replayErr = replayBatch(w, *repo, withModel, tmp)
	}
	confirmedN := 0
	for _, fc := range failed {
		or, r := fc.res, fc.run
		p := filepath.Join(replayDir, *prop+"_"+sanitize(or.Obl.Name)+".txt")
		var sb strings.Builder
		fmt.Fprintf(&sb, "obligation: %s\nkind: %s\nproperty: %s\nfunction: %s\nclause: %s\nposition: %s\nstatus: %s (%s)\n\n", or.Obl.Name, or.Obl.Kind,
			*prop, r.tr.Name, or.Obl.Detail, or.Obl.Pos, or.Status, or.Solver)
		extra := " no-failing-input-found"
		if or.Obl.Cover {
			sb.WriteString("vacuity: the contract's preconditions (or a callee's assumed postcondition) admit no returning execution\n")
		}
		if len(or.Model) > 0 {
			sb.WriteString("counterexample (solver model of the inputs of the function under contract):\n")
			var ks []string
			for k := range or.Model {
				ks = append(ks, k)
			}
			sort.Strings(ks)
			for _, k := range ks {
				fmt.Fprintf(&sb, "  %s = %s\n", k, or.Model[k])
			}
		}
		switch {
		case fc.skip != "":
			fmt.Fprintf(&sb, "\nreplay against the real code: not attempted (%s)\n", fc.skip)
		case fc.confirmed():
			extra = ""
			confirmedN++
			fmt.Fprintf(&sb, "\nreplay against the real code: CONFIRMED\n  call: %s(%s)\n", r.c.FuncID, strings.Join(fc.inputs, "; "))
			fmt.Fprintf(&sb, "  outcome: %s\n", fc.outcome)
		default:
			fmt.Fprintf(&sb, "\nreplay against the real code: not reproduced\n  call: %s(%s)\n  outcome: %s\n", r.c.FuncID, strings.Join(fc.inputs, "; "), fc.outcome)
			if replayErr != "" {
				sb.WriteString("  " + strings.ReplaceAll(replayErr, "\n", "\n  ") + "\n")
			}
		}
		sb.WriteString("\nsolver output:\n" + or.Raw + "\n")
		os.WriteFile(p, []byte(sb.String()), 0o644)
		violation(p, extra)
	}
	// vacuity guard: every locked target still yields at least its locked number of obligations
	if lp, ok := lock[*prop]; ok {
		var missing []string
		for name, min := range lp {
			if counts[name] < min {
				missing = append(missing, fmt.Sprintf("%s: %d obligations, lock file expects at least %d", name, counts[name], min))
			}
		}
		sort.Strings(missing)
		if len(missing) > 0 {
			p := filepath.Join(replayDir, *prop+"_vacuity.txt")
			os.WriteFile(p, []byte("obligation: obligation-count\n\n"+strings.Join(missing, "\n")+"\n"), 0o644)
			violation(p, " no-failing-input-found")
		}
	}
	if total == 0 {
		p := filepath.Join(replayDir, *prop+"_vacuity.txt")
		os.WriteFile(p, []byte("obligation: obligation-count\n\nno obligation was generated for this property\n"), 0o644)
		violation(p, " no-failing-input-found")
	}
	cov := map[string]interface{}{
		"obligations": total, "discharged": discharged,
		"checker_cmd":                        fmt.Sprintf("bin/ionvc check -prop %s -tier %s", *prop, *tier),
		"functions_under_contract":           funcs,
		"by_backend":                         byBackend,
		"solver_time_s":                      solverTime,
		"samples":                            samples,
		"known_findings":                     knownPrinted,
		"undischarged":                       unproved,
		"second_solver_agreed":               secondAgreed,
		"second_solver_undecided":            secondUndecided,
		"counterexamples_replayed_confirmed": confirmedN,
		"load_s":                             w.LoadTime.Seconds(),
	}
	if *tier != "thorough" {
		delete(cov, "second_solver_agreed")
		delete(cov, "second_solver_undecided")
	}
	var ns []string
	for n := range notes {
		ns = append(ns, n)
	}
	sort.Strings(ns)
	writeEvidence(*verif, *prop, *tier, seed, cov, ns, w, time.Since(t0).Seconds(), violations, *noEvidence, w)
	// the slowest obligations of this run (reported in evidence: a goal that needs a large
	// share of the budget is a candidate for restructuring before it becomes unstable)
	type slowRec struct {
		Name   string  `json:"obligation"`
		Solver string  `json:"backend"`
		Time   float64 `json:"seconds"`
	}
	var slow []slowRec
	for _, r := range runs {
		for _, or := range r.rs {
			if or != nil && oblHasProp(or.Obl, *prop) && !or.Cached {
				slow = append(slow, slowRec{or.Obl.Name, or.Solver, or.Time})
			}
		}
	}
	sort.Slice(slow, func(i, j int) bool { return slow[i].Time > slow[j].Time })
	if len(slow) > 8 {
		slow = slow[:8]
	}
	if os.Getenv("IONVC_SLOW") != "" {
		fmt.Printf("  load %.1fs\n", w.LoadTime.Seconds())
		for _, r := range runs {
			if r.gen+r.sol > 2 {
				fmt.Printf("  target %-40s gen %.1fs solve %.1fs (%d obligations)\n", r.tr.Name, r.gen, r.sol, len(r.tr.Obls))
			}
		}
		for _, sr := range slow {
			fmt.Printf("  slow: %6.2fs %-9s %s\n", sr.Time, sr.Solver, sr.Name)
		}
	}
	fmt.Printf("property %s: %d obligations, %d discharged, %d known findings, %d violations, %.1fs\n", *prop, total, discharged, len(knownPrinted), violations,
		time.Since(t0).Seconds())
	if violations > 0 {
		return 1
	}
	return 0
}

func oblHasProp(o *vc.Obligation, p string) bool {
	if len(o.Props) == 0 {
		return true // structural obligations (unwinding, frame) belong to every property of the function
	}
	for _, q := range o.Props {
		if q == p {
			return true
		}
	}
	return false
}

var trustedBase = []string{
	"golang.org/x/tools/go/ssa v0.29.0 and go/types translate the source faithfully; the Go compiler and runtime implement the language specification",
	"z3 5.1.0 / cvc5 1.0.3 / z3 4.8.12 are sound (an obligation counts as discharged when one of them answers unsat)",
	"int, uint and uintptr are 64 bits wide (linux/amd64)",
	"slice and string lengths and capacities are below 2^62; a slice's length does not exceed its capacity",
	"append always yields a fresh backing array holding the old contents followed by the new elements (in-place growth is not modelled)",
	"distinct allocations do not alias; objects reachable on entry were allocated before the call",
	"termination is not proved (partial correctness); out-of-memory and stack exhaustion are not modelled",
	"no goroutines, unsafe, cgo or assembly in the verified functions",
}

func writeEvidence(verif, prop, tier string, seed int, cov map[string]interface{}, notes []string, _ *vc.World, wall float64, violations int, skip bool, w *vc.World) {
	if skip {
		return
	}
	if cov == nil {
		cov = map[string]interface{}{"obligations": 0, "discharged": 0, "checker_cmd": "bin/ionvc check -prop " + prop, "samples": []interface{}{}}
	}
	cov["trusted_base"] = trustedBase
	assume := append([]string{}, trustedBase...)
	assume = append(assume, notes...)
	if w != nil {
		for _, c := range w.Contracts {
			if c.Trusted {
				assume = append(assume, fmt.Sprintf("trusted contract (assumed, not proved): %s %v", c.FuncID, c.Assumes))
			}
			if c.ModelOf != "" {
				assume = append(assume, fmt.Sprintf("library model (trusted): %s is replaced by %s", c.ModelOf, c.ModelFn))
			}
		}
	}
	ev := evidence{PropertyID: prop, Tier: tier, Seed: seed, Level: "proof", Coverage: cov, Assumptions: assume, WallS: wall, Violations: violations}
	data, _ := json.MarshalIndent(ev, "", " ")
	os.MkdirAll(filepath.Join(verif, "evidence"), 0o755)
	os.WriteFile(filepath.Join(verif, "evidence", prop+".json"), append(data, '\n'), 0o644)
}

// lockCmd writes obligations.lock.json from the current tree.
func lockCmd(args []string) int {
	fs := flag.NewFlagSet("lock", flag.ExitOnError)
	repo := fs.String("repo", "/repo", "repository root")
	verif := fs.String("verif", "/verif", "verification directory")
	fs.Parse(args)
	w, err := vc.Load(*repo, nil)
	if err != nil {
		fmt.Fprintln(os.Stderr, err)
		return 2
	}
	lock := lockFile{}
	vc.QuickTier = true // the lock holds the quick tier's minimum
	for _, c := range w.Contracts {
		if c.Iface || c.Trusted || c.ModelOf != "" || c.OpaqueFn != "" {
			continue
		}
		tr := w.Verify(c)
		if tr.Unsupported != "" {
			fmt.Fprintf(os.Stderr, "%s unsupported: %s\n", tr.Name, tr.Unsupported)
			continue
		}
		props := map[string]bool{}
		for _, o := range tr.Obls {
			for _, p := range o.Props {
				props[p] = true
			}
		}
		for p := range props {
			n := 0
			for _, o := range tr.Obls {
				if oblHasProp(o, p) {
					n++
				}
			}
			if lock[p] == nil {
				lock[p] = map[string]int{}
			}
			// post/lemma/pre obligations are stable; safety obligations depend on the code shape: lock
			// only the contract-derived count
			_ = n
			lock[p][tr.Name] = lockCount(tr.Obls, p)
		}
	}
	data, _ := json.MarshalIndent(lock, "", " ")
	os.WriteFile(filepath.Join(*verif, "obligations.lock.json"), append(data, '\n'), 0o644)
	return 0
}

// lockCount is the number of contract-derived proof goals of a target for a property:
// distinct postcondition clauses (however many case or return splits prove each), lemmas
// and covers. Safety obligations depend on the code shape and are not counted.
func lockCount(obls []*vc.Obligation, p string) int {
	seen := map[string]bool{}
	n := 0
	any := false
	for _, o := range obls {
		if !oblHasProp(o, p) {
			continue
		}
		any = true
		switch o.Kind {
		case "post", "atcall":
			g := o.Group
			if g == "" {
				g = o.Name
			}
			if !seen[g] {
				seen[g] = true
				n++
			}
		case "lemma", "cover":
			n++
		}
	}
	if n == 0 && any {
		n = 1
	}
	return n
}
