; Decimal.Add exactness with pow10 uninterpreted: case a.scale < b.scale
(set-logic ALL)
(declare-fun pow10 (Int) Int)
(declare-const na Int) (declare-const nb Int) (declare-const sa Int) (declare-const sb Int)
(assert (< sa sb))
(define-fun d () Int (- sb sa))
; laws instantiated: pow10(sb) = pow10(sa)*pow10(d), positivity
(assert (> (pow10 sa) 0)) (assert (> (pow10 sb) 0)) (assert (> (pow10 d) 0))
(assert (= (pow10 sb) (* (pow10 sa) (pow10 d))))
; result n = na*pow10(d) + nb, scale sb.  exact: n/p(sb) = na/p(sa) + nb/p(sb)
; cross-multiplied: n * p(sa) * p(sb) = na*p(sb)*p(sb) + nb*p(sa)*p(sb)
(define-fun n () Int (+ (* na (pow10 d)) nb))
(assert (not (= (* n (pow10 sa)) (+ (* na (pow10 sb)) (* nb (pow10 sa))))))
(check-sat)
