# appendVarUint unrolled (encode) then readVarUintLen unrolled (decode): prove val==v0, len==10-i, unwinding
L=[]
A=L.append
A("(set-logic QF_ABV)")
A("(declare-const v0 (_ BitVec 64))")
A("(declare-const buf0 (Array (_ BitVec 64) (_ BitVec 8)))")
def bv(n,w=64): return "(_ bv%d %d)"%(n,w)
A("(define-fun buf_9 () (Array (_ BitVec 64) (_ BitVec 8)) (store buf0 %s (bvor #x80 ((_ extract 7 0) (bvand v0 %s)))))"%(bv(9),bv(127)))
A("(define-fun v_9 () (_ BitVec 64) (bvlshr v0 %s))"%bv(7))
# iterations: state (v_i, buf_i, idx i); loop while v>0
# reach_k : loop body executed for index k (k from 8 down to 0)
prev=9
A("(define-fun go_9 () Bool true)")
for k in range(8,-1,-1):
    A("(define-fun go_%d () Bool (and go_%d (bvugt v_%d %s)))"%(k,prev,prev,bv(0)))
    A("(define-fun buf_%d () (Array (_ BitVec 64) (_ BitVec 8)) (ite go_%d (store buf_%d %s ((_ extract 7 0) (bvand v_%d %s))) buf_%d))"%(k,k,prev,bv(k),prev,bv(127),prev))
    A("(define-fun v_%d () (_ BitVec 64) (ite go_%d (bvlshr v_%d %s) v_%d))"%(k,k,prev,bv(7),prev))
    prev=k
# final i = number: i = 9 - count(go)
A("(define-fun iF () (_ BitVec 64) "+ "".join("(ite go_%d %s "%(k,bv(k)) for k in range(0,9)) + bv(9) + ")"*9 + ")")
# unwinding assertion: after index 0 executed, v must be 0
A("(define-fun unwind_ok () Bool (=> go_0 (= v_0 %s)))"%bv(0))
# decode from buf_0 starting at iF, max 10
A("(define-fun rd ((k (_ BitVec 64))) (_ BitVec 8) (select buf_0 (bvadd iF k)))")
val="(_ bv0 64)"
A("(define-fun val_0 () (_ BitVec 64) %s)"%bv(0))
A("(define-fun cont_0 () Bool true)")
for k in range(10):
    A("(define-fun val_%d () (_ BitVec 64) (ite cont_%d (bvxor (bvshl val_%d %s) ((_ zero_extend 56) (bvand (rd %s) #x7f))) val_%d))"%(k+1,k,k,bv(7),bv(k),k))
    A("(define-fun len_%d () (_ BitVec 64) %s)"%(k+1,bv(k+1)))
    A("(define-fun cont_%d () Bool (and cont_%d (= (bvand (rd %s) #x80) #x00)))"%(k+1,k,bv(k)))
A("(define-fun declen () (_ BitVec 64) " + "".join("(ite (not cont_%d) %s "%(k,bv(k)) for k in range(1,11)) + bv(99) + ")"*10 + ")")
A("(define-fun enclen () (_ BitVec 64) (bvsub %s iF))"%bv(10))
A("(assert (not (and unwind_ok (not cont_10) (= declen enclen) (= val_10 v0))))")
A("(check-sat)")
open("q2.smt2","w").write("\n".join(L))
