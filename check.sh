#!/bin/sh
# usage: check.sh <property id> [quick|thorough]
# Regenerates every verification condition of the property from /repo's current working
# tree (build tag `verif`) and discharges it. Exit 0: all discharged; exit 1: VIOLATION.
set -u
cd "$(dirname "$0")"
export GOFLAGS=-mod=mod GOPROXY=off GOSUMDB=off GOTOOLCHAIN=local GOWORK=off
[ -x bin/ionvc ] || ./setup.sh >/dev/null 2>&1 || { echo "setup failed"; exit 2; }
exec bin/ionvc check -prop "$1" -tier "${2:-quick}" -repo "${IONVC_REPO:-/repo}" -verif "$(pwd)"
