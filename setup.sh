#!/bin/sh
# Builds the verification-condition generator from the sources in this directory (offline).
set -eu
cd "$(dirname "$0")"
export GOFLAGS=-mod=mod GOPROXY=off GOSUMDB=off GOTOOLCHAIN=local GOWORK=off
mkdir -p bin
go build -o bin/ionvc ./cmd/ionvc
