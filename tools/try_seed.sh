#!/bin/sh
# usage: try_seed.sh <seed-name> <function substring> [extra dev flags]
# Applies a seeded change to a scratch worktree of /repo (with the working tree's contract
# files, committed or not) and verifies the named functions there. Development aid.
set -u
export GOFLAGS=-mod=mod GOPROXY=off GOSUMDB=off GOTOOLCHAIN=local GOWORK=off IONVC_CACHE=off
V="$(cd "$(dirname "$0")/.." && pwd)"
WT=/tmp/try_repo_$$
git -C /repo worktree add --detach "$WT" HEAD >/dev/null 2>&1 || exit 2
cp /repo/ion/zz_verif_*.go "$WT/ion/"; cp /repo/cmd/ion-go/zz_verif_*.go "$WT/cmd/ion-go/"
(cd "$WT" && patch -p1 --fuzz=3 -s < "$V/seeded/$1/patch.diff") || { echo "patch failed"; git -C /repo worktree remove --force "$WT"; exit 2; }
BIN="$V/bin/ionvc2"; [ -x "$BIN" ] || BIN="$V/bin/ionvc"
fn="$2"; shift 2
"$BIN" dev -repo "$WT" -func "$fn" "$@" 2>&1 | grep "FAIL\|^total\|UNSUPP\|load:"
git -C /repo worktree remove --force "$WT" >/dev/null 2>&1
