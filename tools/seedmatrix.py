#!/usr/bin/env python3
"""Runs the claimed checks against every seeded change (in a scratch worktree under /tmp,
never in /repo) and prints which checks raise a violation.
usage: seedmatrix.py [seed-name ...]"""
import json, os, subprocess, sys, shutil
VERIF = os.path.dirname(os.path.dirname(os.path.abspath(__file__)))
ENV = dict(os.environ, GOFLAGS="-mod=mod", GOPROXY="off", GOSUMDB="off", GOTOOLCHAIN="local", GOWORK="off")
man = json.load(open(os.path.join(VERIF, "MANIFEST.json")))
claimed = [c["property_id"] for c in man["checks"]]
seeds = sys.argv[1:] or sorted(os.listdir(os.path.join(VERIF, "seeded")))
wt = os.environ.get("MATRIX_WT", "/tmp/matrix_repo")
out = {}
for s in seeds:
    d = os.path.join(VERIF, "seeded", s)
    if not os.path.exists(os.path.join(d, "patch.diff")):
        continue
    subprocess.run("git -C /repo worktree remove --force %s" % wt, shell=True, capture_output=True)
    shutil.rmtree(wt, ignore_errors=True)
    subprocess.run("git -C /repo worktree add --detach %s HEAD" % wt, shell=True, capture_output=True, check=True)
    p = subprocess.run("patch -p1 --fuzz=3 -s < %s/patch.diff" % d, shell=True, cwd=wt, capture_output=True, text=True)
    if p.returncode != 0:
        print(s, "PATCH DOES NOT APPLY", p.stdout[-200:], p.stderr[-200:])
        continue
    prop = s.split("-")[0]
    hits = []
    todo = [prop] if (prop in claimed and os.environ.get("SEED_ALL") is None) else claimed
    for c in todo:
        r = subprocess.run(["nice", "-n", "10", os.path.join(VERIF, "bin/ionvc"), "check", "-prop", c, "-repo", wt, "-verif", VERIF, "-no-evidence"], env=ENV, cwd=VERIF, capture_output=True, text=True)
        v = [l for l in r.stdout.splitlines() if l.startswith("VIOLATION")]
        if v:
            hits.append("%s(%d)" % (c, len(v)))
            # which obligations failed, and how (a timeout under load is not a detection)
            with open(os.environ.get("MATRIX_DETAIL", "/tmp/seedmatrix_detail.log"), "a") as df:
                for l in v:
                    rp = l.split("replay=")[-1].split()[0]
                    st = ""
                    try:
                        for rl in open(rp):
                            if rl.startswith("status:"):
                                st = rl.strip()
                    except OSError:
                        pass
                    df.write("%s %s %s %s\n" % (s, c, os.path.basename(rp), st))
    out[s] = hits
    print("%-8s own=%s claimed=%s detected_by=%s" % (s, prop, prop in claimed, " ".join(hits) or "-"), flush=True)
subprocess.run("git -C /repo worktree remove --force %s" % wt, shell=True, capture_output=True)
json.dump(out, open(os.environ.get("MATRIX_OUT", "/tmp/seedmatrix.json"), "w"), indent=1)
