#!/usr/bin/env python3
"""Writes /verif/MANIFEST.json from the table below (kept in one place so that the
claimed / not-applicable split stays consistent with DESIGN.md)."""
import json, os, subprocess, sys

HERE = os.path.dirname(os.path.dirname(os.path.abspath(__file__)))

# property id -> (level text, level note, design ref)
CLAIMS = {
    "C04": (
        "Every pre-computed length function of the binary writer (uintLen, intLen, varUintLen, varIntLen, tagLen) is proved equal, for all "
        "64-bit inputs, to a closed-form specification function taken from the Ion binary spec, and every append function is proved to "
        "append exactly that many bytes, each equal to the specified byte, leaving the earlier bytes untouched; loops are completely "
        "unrolled with the unwinding assertion as an obligation; no-panic obligations for the same functions. Solver counterexamples are "
        "replayed on the real functions (go test -overlay) and the failed clause is evaluated on the real result.",
        "Decides the 'declared length equals bytes occupied' mechanism per function. Not decided: composition through the writer state "
        "machine and buffer tree, text output, symbol-table emission; no independent decoder exists in this family - 'equals the "
        "specification function' stands in for it. Trusted: go/ssa, solvers, 64-bit int, append modelled as always-fresh array.",
        "DESIGN.md section 7 C04"),
}

NOT_APPLICABLE = {}

ALL = ["C%02d" % i for i in range(1, 21)]


def main():
    # every commit of /repo that touches a hook file (oldest first)
    src = subprocess.run(["git", "-C", "/repo", "log", "--reverse", "--format=%H", "--", "ion/zz_verif_contracts.go", "ion/zz_verif_spec.go",
                          "cmd/ion-go/zz_verif_contracts.go"], capture_output=True, text=True).stdout.split()
    checks = []
    for pid in ALL:
        if pid not in CLAIMS:
            continue
        text, note, ref = CLAIMS[pid]
        checks.append({
            "property_id": pid,
            "quick_cmd": "./check.sh %s quick" % pid,
            "thorough_cmd": "./check.sh %s thorough" % pid,
            "evidence_file": "/verif/evidence/%s.json" % pid,
            "replay_cmd_template": "cat {path}",  # the replay file carries the inputs, the real run's outcome and the solver output
            "engine": "ionvc",
            "level_claimed": {"category": "proof", "text": text, "design_ref": ref},
            "level_note": note,
            "technique": "contract-based deductive verification: weakest-precondition style VCs generated from go/ssa of the real functions "
                         "against //@ contracts, discharged by z3/cvc5",
        })
    na = []
    for pid in ALL:
        if pid in CLAIMS:
            continue
        na.append({"property_id": pid, "reason": NOT_APPLICABLE.get(pid, "contracts for the functions this property depends on are not yet "
                   "under the generator (see DESIGN.md section 11, build order); not claimed until its core obligations are generated and discharged")})
    man = {
        "version": 1,
        "setup_cmd": "./setup.sh",
        "hooks": {
            "guard": "verif",
            "enable": "go build tag `verif` (ionvc loads /repo with -tags=verif; the hook files are comment/spec only: "
                      "ion/zz_verif_contracts.go, ion/zz_verif_spec.go)",
            "baseline_off_cmd": "cd /repo && GOFLAGS=-mod=mod GOPROXY=off GOSUMDB=off go test -mod=mod -json -vet=off -count=1 -timeout 25m ./...",
            "source_commits": src,
            "add_only": True,
        },
        "engines": [{
            "name": "ionvc", "path": "/verif/cmd/ionvc", "serves_properties": sorted(CLAIMS.keys()),
            "kind_free_text": "verification-condition generator over go/ssa (bit-precise integers, heap arrays per field, loops by complete "
                              "unrolling or inductive invariant, calls by contract) + SMT portfolio z3-new/cvc5/z3",
        }],
        "checks": checks,
        "not_applicable": na,
        "notes": "See DESIGN.md. Contracts live in /repo/ion/zz_verif_contracts.go (comment-only, build tag verif); known findings in "
                 "/verif/known_findings.json.",
    }
    with open(os.path.join(HERE, "MANIFEST.json"), "w") as f:
        json.dump(man, f, indent=1)
        f.write("\n")


if __name__ == "__main__":
    main()
