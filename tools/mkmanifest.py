#!/usr/bin/env python3
"""Writes /verif/MANIFEST.json from the table below (kept in one place so that the
claimed / not-applicable split stays consistent with DESIGN.md)."""
import json, os, subprocess, sys

HERE = os.path.dirname(os.path.dirname(os.path.abspath(__file__)))

# property id -> (level text, level note, design ref)
TECH = ("contract-based deductive verification: weakest-precondition style VCs generated from go/ssa of the real functions "
        "against //@ contracts, discharged by z3/cvc5")

CLAIMS = {
    "C01": (
        "The writer/reader pairs of the scalar encodings are proved inverse at specification level, for all inputs: every encoder of bits.go writes "
        "exactly the bytes of its byte specification and the round-trip lemmas show that the readers' value specifications (big-endian fold, "
        "VarUInt and VarInt value/stop/sign) applied to those bytes give back the value, for every 64-bit value; binaryWriter.WriteInt/WriteUint "
        "emit sign nibble, length and that magnitude; WriteFloat keeps bits, NaN and negative zero and uses four bytes only when lossless; the "
        "declared length of a binary timestamp equals the bytes appended; container length prefixes equal the tag written. Text: every byte of "
        "a string or quoted symbol is written exactly once and in order, raw only when printable and not the delimiter or backslash, otherwise as "
        "the escape that the tokenizer's escape decoding (proved against the Ion escape table) reads back to the same byte (lemmas); a clob "
        "escape denotes exactly one byte.",
        "A partial decision: the composition into whole values and streams is not machine-checked (buffer tree and annotation wrappers, "
        "symbol-table emission at Finish, text number/decimal/timestamp formatting through fmt/strconv, validateAnnotatedValue, the text "
        "tokenizer beyond characters and escapes). Known defects outside the decided part are listed in DESIGN.md section 0.3.",
        "DESIGN.md section 7 C01"),
    "C02": (
        "Character-level decoding of the text reader under contract, over a ghost model of the input stream: tokenizer.read normalises CR and CR LF "
        "to LF, honours the push-back buffer, and never turns a failing read into a clean end; unread/peek restore exactly; fromHex, "
        "readHexEscapeSeq (loop invariant: the value of the digits consumed so far) and readEscapedChar decode every escape of the Ion text "
        "grammar to exactly its character, reject \\u and \\U in clobs, and reject anything else; the text reader's state machine rejects dangling "
        "annotations and misplaced closers (C07 contracts shared).",
        "Also: inside a lob only whitespace is skipped, never comments; skipping a long string consumes the character after a backslash and pushes "
        "the character after the closing quotes back exactly once. "
        "A partial decision: number, timestamp, symbol, blob and long-string scanning (ReadNumber, readRadix, ReadBlob, readLongString, "
        "scanForNumericType), whitespace and comment skipping, and the conversion of token text to values (strconv, ParseDecimal, ParseTimestamp) "
        "are not under contract; the tokenizer's Next/ReadValue are thin assumed contracts for the text reader's state machine.",
        "DESIGN.md section 7 C02"),
    "C03": (
        "The binary decoding path is under contract function by function: parseTag; bitstream.Next against the Ion binary type-descriptor table "
        "(all 256 descriptor octets, inline and VarUInt lengths, sorted structs, typed nulls, booleans, NOP pads, version markers only at top level); "
        "readVarUintLen/skipVarUintLen/readVarIntLen against closed-form VarUInt/VarInt specification functions; ReadInt, ReadSymbolID, ReadFloat, "
        "ReadString, ReadBytes, ReadBVM, ReadFieldID against big-endian/IEEE specification functions; readDecimal/readBigInt (exponent, sign, negative zero "
        "only for a zero magnitude with the sign bit), ReadTimestamp (loop invariant), the annotation wrapper's length re-validation; SkipValue/StepIn/StepOut and the "
        "representation invariant of the container stack; binaryReader.next's descriptor-to-Ion-type table, NOP-pad skipping and version-marker "
        "handling. Every clause is proved for all inputs (bit-precise 64-bit arithmetic, ghost model of the buffered input stream).",
        "Per-function proofs; the composition into whole-stream decoding is by the chain of contracts, not machine-checked as one theorem. "
        "Trusted (assumed, listed in evidence): ReadAnnotations and readLocalSymbolTable are thin assumed contracts for their callers (decimals, "
        "timestamps and the annotation wrapper's length re-validation are proved); math/big as integers; bufio/io through the ghost stream model.",
        "DESIGN.md section 7 C03"),
    "C04": (
        "Every pre-computed length function of the binary writer (uintLen, intLen, varUintLen, varIntLen, tagLen) is proved equal, for all "
        "64-bit inputs, to a closed-form specification function taken from the Ion binary spec, and every append function is proved to "
        "append exactly that many bytes, each equal to the specified byte, leaving the earlier bytes untouched; loops are completely "
        "unrolled with the unwinding assertion as an obligation; no-panic obligations for the same functions. Solver counterexamples are "
        "replayed on the real functions (go test -overlay) and the failed clause is evaluated on the real result.",
        "Also: a big integer's and a decimal's declared length equals the bytes written for it (sign byte, negative zero); the text writer sets "
        "the pending field name and annotations aside before writing its symbol table. "
        "Decides the 'declared length equals bytes occupied' mechanism per function. Not decided: composition through the writer state "
        "machine and buffer tree, text output, symbol-table emission; no independent decoder exists in this family - 'equals the "
        "specification function' stands in for it. Trusted: go/ssa, solvers, 64-bit int, append modelled as always-fresh array.",
        "DESIGN.md section 7 C04"),
    "C05": (
        "The mechanisms that make a copy independent of the source's symbol IDs, in the binary writer and the symbol-table reader: "
        "binaryWriter.WriteSymbol resolves the token's text whenever it has one and uses the token's ID only for a token without text (ghost call "
        "counter: exactly one resolution when text is present), and writes the ID it resolved; beginValue does the same for the field name and "
        "resolves every annotation by text; WriteSymbolFromString resolves its argument; resolve hands everything that is not $n to the symbol "
        "table; readSymbols gives every element of a symbols list exactly one slot, so later IDs do not shift; sst.Adjust keeps name, version "
        "and the requested max_id.",
        "Not decided: the copy loop as a whole (Reader accessors into Writer calls for every type, containers, typed nulls), the text writer's "
        "symbol output (writeSymbol goes through fmt), cmd/ion-go's processor, and equivalence of the output stream with the input (needs the "
        "reader/writer composition). Defect found and repaired: the binary writer preferred the source stream's ID over known text.",
        "DESIGN.md section 7 C05"),
    "C06": (
        "No-panic (nil dereference, index and slice bounds, failed type assertion, explicit panic, makeslice) obligations for every function of "
        "the binary reading path under contract, under the representation invariants bsLocal/bsNested/brLocal that each operation is proved to "
        "re-establish; every allocation sized by input data is bounded (allocbound obligation on readN: at most 64 KiB is allocated ahead of "
        "the bytes delivered); reader accessors never dereference a nil value.",
        "Binary reader and accessors only: the text reader, Decoder/Unmarshal and the symbol-table reader are not under contract yet, so this "
        "check decides the property for binary input up to the same trusted thin contracts as C03. Termination is not proved.",
        "DESIGN.md section 7 C06"),
    "C07": (
        "Error postconditions taken from the Ion binary spec for the binary path: illegal descriptor octets, a version marker inside a container, "
        "an empty sorted struct, a length that overruns its container or the addressable offsets, input that ends inside a value, a container "
        "or a VarUInt, VarUInts longer than allowed, negative zero integers, float sizes other than 0/4/8, symbol ids longer than 8 bytes, bad "
        "version markers all end in a non-nil error; binaryReader.Next is proved sticky (after an error it returns false and changes nothing).",
        "Binary input only; the text reader's error paths are not under contract. The catalogue of malformations is the one the contracts state.",
        "DESIGN.md section 7 C07"),
    "C08": (
        "Skip equals read on the cursor: SkipValue and every ReadX are proved to leave the bitstream at old position + length, in the state "
        "after a value, with the value fields cleared (one shared postcondition bsConsumed); StepOut lands on the container's end from any "
        "inner position; StepIn/StepOut preserve the stack below; refused calls (StepIn on a scalar or null, StepOut at top level, calls after "
        "an error) change nothing; accessors have `modifies nothing`.",
        "Binary reader only. Navigation programs as a whole follow from the per-call contracts on paper.",
        "DESIGN.md section 7 C08"),
    "C09": (
        "Shared and local symbol tables under contract: buildIndex (loop invariant over the map: every entry lies in [offset, offset+len)), "
        "NewSharedSymbolTable, sst.MaxID/FindByID/FindByName/Adjust (padding and truncation keep name, version, the retained symbols and a text "
        "index that only points at retained symbols; the result's max_id is the requested one), lst.MaxID/FindByID (IDs above the maximum and 0 "
        "are rejected, local symbols follow the imports in order), findByIDInImports and lst.FindByName (loop invariants, index safety), "
        "symbolTableBuilder.Add (known text returns without adding, new text gets max+1, is findable afterwards, earlier symbols are not "
        "renumbered), NewSymbolTokenBySID.",
        "Also proved: processImports puts the system table first, keeps the imports in order and computes the offsets as running sums of the "
        "imports' max_ids; NewLocalSymbolTable and NewSymbolTableBuilder establish the representation invariant (lstWF) the lookups assume; "
        "lst.FindByName consults the imports first, in order, and answers from the local index only when no import has the text. "
        "Not decided: lowest-ID-wins inside one shared table beyond buildIndex's first-occurrence rule; observers of foreign SymbolTable "
        "implementations are assumed pure; the size of the system table is a stated assumption of processImports.",
        "DESIGN.md section 7 C09"),
    "C10": (
        "The symbol-table context of the readers under contract: binaryReader.readBVM resets r.lst to the system table exactly on a valid 1.0 "
        "version marker; binaryReader.next intercepts a top-level struct annotated $ion_symbol_table (it installs a non-nil table and does not "
        "return the struct as a value; a null struct resets to the system table); readImport resolves one import declaration as the property "
        "states, proved over the function's own locals (FindExact is asked for the declared name and version >= 1, never for an empty name or "
        "$ion; FindLatest only after FindExact found nothing; a missing max_id is replaced by the table's own only when the versions match, "
        "otherwise the call fails; the table is adjusted to exactly the declared max_id; without a catalog a placeholder with the declared "
        "name and version is built); readSymbols gives every element of the symbols list exactly one slot (ghost call counter on Reader.Next); "
        "sst.Adjust pads and truncates as specified.",
        "Not decided: that every later symbol ID is resolved against the installed table in the text reader, the $ion_symbol_table append case of "
        "readImports, NewLocalSymbolTable/processImports offsets, and the Catalog implementations (FindExact/FindLatest are assumed pure "
        "observers). The Reader seen by readLocalSymbolTable is an interface (pure observers, versioned ghost state); binaryReader.next "
        "calls readLocalSymbolTable by an assumed thin contract.",
        "DESIGN.md section 7 C10"),
    "C11": (
        "NewBinaryWriter hands exactly the given shared tables to the symbol-table builder; NewBinaryWriterLST keeps the fixed table, unwritten. "
        "resolveFromSymbolTable: with a fixed table the ID is the table's own FindByName answer and unknown text is an error (no ID is produced); "
        "with a builder the text goes to SymbolTableBuilder.Add, whose contract (text is findable afterwards under the returned ID) is carried to "
        "the caller; symbolTableBuilder.Add itself never renumbers and returns the existing ID for known text (C09 contracts). beginValue writes "
        "the fixed table once, before the first value. lst.WriteTo declares every import after the system table with name, version and max_id "
        "and every local symbol in order, none skipped (loop invariants over ghost call counters on the Writer interface).",
        "Not decided: that a Reader with the same catalog recovers the text (composition with C10), the byte layout of the emitted table beyond the "
        "Writer calls made, Finish ordering (table before buffered values), marshal's use of these constructors. The interface contract of "
        "SymbolTableBuilder.Add is assumed of implementations other than symbolTableBuilder (whose own contract states the same facts over its "
        "fields); lstWF is an assumed precondition.",
        "DESIGN.md section 7 C11"),
    "C12": (
        "For every method of both writers (binary and text, 24 methods each, plus FieldName/Annotation/Annotations): once w.err is set the call "
        "returns it and leaves it in place, and a call other than Finish that returns an error has recorded it in w.err - so checking the final "
        "Finish is enough. binaryWriter.beginValue/writeValue refuse a value inside a struct without a field name; container.Len equals the "
        "bytes EmitTo writes for the tag; the text writer's Finish keeps a pending separator unless it wrote the newline that replaces it.",
        "binaryWriter.Finish re-arms the batch buffer so that a later batch is again preceded by its symbol table; datagram.EmitTo emits every "
        "child or reports the first failure. Also: no error returned by any callee inside package ion is dropped (one errprop obligation per call site, decided on go/ssa). "
        "Not decided: that the emitted values are exactly those of the calls that succeeded (protocol-level), determinism, re-arming after Finish "
        "in the binary writer, and no-panic for invalid Type arguments. The writers' internal helpers are called by contract with `modifies *`.",
        "DESIGN.md section 7 C12"),
    "C13": (
        "Integer codecs: the bits.go encoders against closed-form byte specifications for all 64-bit values; readVarUintLen/readVarIntLen/ReadInt/"
        "ReadSymbolID decode exactly (int64 fast path iff the magnitude fits, otherwise big.Int); ReadFloat decodes 4- and 8-byte IEEE values "
        "exactly; IntSize/IntValue/Int64Value/BigIntValue and every other accessor return nil for a typed null of their type, a usage error for "
        "another type, the exact value when it fits and an error when it does not.",
        "Writer side: WriteFloat stores four bytes only when float32 is lossless, binaryWriter.WriteInt/WriteUint emit sign nibble, length and the exact "
        "big-endian magnitude for every 64-bit value, WriteBigInt never delegates to a fixed-width path unless the value fits it, and the Encoder "
        "never narrows an unsigned 64-bit value into WriteInt. The text parser parseInt and writeBigInt's byte layout are not under contract. "
        "math/big is a trusted integer model.",
        "DESIGN.md section 7 C13"),
    "C14": (
        "Decimal arithmetic under contract, over the reading 'a Decimal denotes n * 10^(-scale)': upscale multiplies the coefficient by exactly "
        "10^(scale difference); rescale brings both operands to the finer of the two scales; Add, Sub, Cmp and Equal are the integer sum, "
        "difference and comparison of the coefficients at that common scale; Mul multiplies coefficients and adds scales; Neg, Abs and Sign act on "
        "the coefficient alone; ShiftL/ShiftR move only the scale by exactly the shift (no silent wrap: out-of-range exponents are the documented "
        "panic, a precondition here); Truncate keeps exactly the requested number of leading digits of the coefficient, counts the sign as no "
        "digit, adds the dropped digit count to the exponent, and returns a value with no more digits than requested unchanged.",
        "Decimal.String: which of the three layouts is chosen, the trailing point of integers, negative zero as -0, the sign never separated from "
        "the first digit, the position of the point inside the digits (strings.Builder through a ghost model). "
        "Not decided: ParseDecimal and the String/ParseDecimal round trip (strconv and fmt are outside the generator's subset), the digits after "
        "the exponent marker, trunc/round. math/big is the trusted integer model (Exp and the digit string are uninterpreted functions with the "
        "stated laws), so 'exact' is exactness of the integer expressions at the common scale.",
        "DESIGN.md section 7 C14"),
    "C15": (
        "Binary timestamps: timestampLen equals the bytes appendTimestamp appends for every field combination (offset or unknown offset, year, "
        "the five precisions, fraction digits and coefficient); TruncatedNanoseconds stays within the nanosecond field and is exact at nine "
        "digits; readVarIntLen decodes offset sign and magnitude exactly; ReadTimestamp consumes exactly the declared length and reads at most "
        "six fields; tryCreateTimestamp accepts only month 1-12, day 1-31, hour 0-23, minute and second 0-59 and an offset of less than a day "
        "(provable only because the code compares every field with time.Date's normalisation); the text parser's computeTimezoneKind rejects "
        "hour offsets of 24 or more and minute offsets of 60 or more and classifies Z, -00:00 and non-zero offsets.",
        "Also: tryCreateTimestamp accepts every real instant with an in-range offset; ParseTimestamp never indexes past its text, parses a fraction "
        "of up to nine digits as written and sends only nine or more digits through rounding. "
        "Not decided: Timestamp.String / ParseTimestamp round trips, Layout selection, fraction rounding (readNsecs and roundFractionalSeconds "
        "are outside the subset: strconv/time formatting), calendar validity beyond the field ranges (time.Date is an abstract function). "
        "readNsecs is proved (consumes exactly its length, never reaches Decimal.ShiftL outside its precondition) with Decimal.trunc/round as thin assumed "
        "contracts; time.Time getters are trusted ranged functions.",
        "DESIGN.md section 7 C15"),
    "C16": (
        "The kind dispatch of both directions is under contract. Encoder.encodeValue hands every Go value to the Writer method of its Ion type "
        "with exactly that value (atcall obligations on the Writer interface: WriteBool for bool; WriteInt only for signed kinds with v.Int() or "
        "for uint8/16/32 with the same non-negative value; WriteBigInt with exactly v.Uint() for uint, uint64 and uintptr; WriteFloat with "
        "v.Float(); WriteString/WriteSymbolFromString by the symbol hint; WriteNull only for an invalid value). Decoder.decodeTo calls each "
        "decodeXTo helper only on a non-null value of its own Ion type; the helpers store exactly the Reader's value through the reflect setter "
        "of the matching kind (bool, signed/unsigned integers with overflow guards, floats, strings, symbols with text).",
        "encodeStruct never writes Timestamp, time.Time, Decimal or big.Int as a struct; a null resets the decode target exactly once. "
        "Not decided: struct field discovery and tags (fields.go), maps, slices, arrays, pointers and interfaces (reflection-heavy code called by "
        "thin assumed contracts), the special struct types (Timestamp, Decimal, time.Time, big.Int), determinism of MarshalText, and the "
        "composition into Unmarshal(Marshal(v)) == v. reflect is a trusted model (observers are pure functions; Kind() is the kind of Type(); "
        "a value of kind uint8/16/32 is below 2^8/2^16/2^32); Writer and Reader are seen through interface contracts.",
        "DESIGN.md section 7 C16"),
    "C17": (
        "Every reflect setter in decodeIntTo and decodeFloatTo is preceded by the guard that says the value fits (atcall obligations on "
        "reflect.Value.SetInt/SetUint/SetFloat: not OverflowInt/OverflowUint/OverflowFloat of the very value stored; the stored integer is the "
        "Reader's value, unsigned targets only for non-negative values or big integers that fit 64 bits); decodeSymbolTo and decodeStringTo "
        "never dereference a missing text or value; unsupported target kinds for integers are errors.",
        "Not decided: null handling in decodeTo, container targets, Decoder.Decode/DecodeTo stream end (ErrNoInput), that the stored Go value "
        "represents the Ion value for containers. reflect observers are trusted pure functions, setters are not modelled; the Reader is seen "
        "through an interface contract (pure observers).",
        "DESIGN.md section 7 C17"),
    "C18": (
        "Frame conditions on shared state, for every function of package ion: it assigns no package-level variable and hands no such variable's "
        "address to a writer; it writes to no object reached from a package-level variable or from a shared symbol table / catalog it received "
        "(receiver or parameter), unless it allocated the object itself. The obligations are generated from go/ssa for the whole package and "
        "discharged by a conservative flow analysis with interprocedural write summaries (no solver).",
        "Decides the sequential sufficient condition 'shared state is never written after construction'; schedules are not enumerated and "
        "races inside reflect, time and math/big for read-only use are assumed absent. Library functions are assumed not to write through "
        "their arguments except for a listed set of mutators.",
        "DESIGN.md section 7 C18"),
    "C19": (
        "The binary reader touches its input only through the ghost-stream model of bufio.Reader (ReadByte/Peek/Discard) and io.ReadFull/io.CopyN, "
        "which has no notion of chunks; read, read1, skip, readN, peekAtOffset and every function built on them are proved to return a non-nil "
        "error when the underlying reader fails with anything but a clean end, and to treat a short read as an error.",
        "Binary reader and the text tokenizer's read/peek. Every error returned by a callee anywhere in package ion is used (errprop obligations, one "
        "per call site, decided on go/ssa; explicit `_ =` discards and strings.Builder/bytes.Buffer writes are exempt and listed). Chunking "
        "itself lives inside bufio (trusted model).",
        "DESIGN.md section 7 C19"),
    "C20": (
        "The copy loop of ion-go process (processor.process) under contract, with the Reader and the Writer seen through interface contracts: a "
        "typed null is written as the typed null of its own type and nothing else is; every other value reaches the Writer method of its own Ion "
        "type and only when it is not null; containers are entered only when they are not null; no accessor result is dereferenced when it can be "
        "nil and neither of the two panics of the loop (bad int size, bad ion type) is reachable (safety obligations); every error handed to "
        "processor.error is non-nil; the processor's writer and error report are not replaced during processing. The event writer's "
        "BeginList/BeginSexp/BeginStruct raise the depth by exactly one on success and BeginStruct requires its struct-tracking map to exist.",
        "Not decided: the command line and file handling (newProcessor, run, processFiles), that Finish is called exactly once per run, the "
        "event writer's event contents (built through Marshal), the error report's contents, the subprocess-level behaviour (exit status, "
        "output files). ErrorReport.Append is a thin assumed contract (it panics when the report itself cannot be written). Reader/Writer "
        "implementations are assumed to meet their interface contracts; Reader and Writer are assumed to be distinct objects.",
        "DESIGN.md section 7 C20"),
}

NA_DEFAULT = ("contracts for the functions this property depends on are not yet under the generator (see DESIGN.md section 11, build order); "
              "not claimed until its core obligations are generated and discharged")
# Round 5: what later rounds added to, or corrected in, the notes above (appended to level_note).
UPDATES = {
    "C01": "Quick tier: validateAnnotatedValue's acceptance of a VarUInt-length value is proved for one-byte length fields; the general clause by the thorough tier only. Round 5: the binary WriteDecimal's one-byte form is proved to be positive zero with exponent zero only (a negative zero keeps its sign octet, "
           "the declared length is exponent plus coefficient); the text writer spells int64/uint64/big.Int as the decimal text of the same integer "
           "(strconv/fmt \"%d\" share one uninterpreted text function with big.Int.String); computeOffset parses hour and minute from the right characters.",
    "C02": "Round 5: readString appends only legal raw characters (no raw line break, control character, quote or backslash) and "
           "isProhibitedControlChar is the grammar's table (HT, VT, FF allowed); textReader.onSymbol (keywords are values only when unquoted) and "
           "onTimestamp are proved; skipBlobHelper skips a blob as a lob (no comments).",
    "C03": "Quick tier: that a wrapper whose enclosed value has a VarUInt length field of the right size is accepted is proved for one-byte length fields (values and sorted structs up to 127 bytes); the clause for length fields of up to ten bytes is proved by the thorough tier only (it needs 25 s of one solver on an idle machine). Round 5: ReadAnnotations is proved, no longer assumed: the annotation IDs are read inside the wrapper only, each bounded by what is left of "
           "annot_length, and the length handed to the re-validation is computed without wrap-around (this found and repaired a crash, DESIGN.md 0.3); "
           "only readLocalSymbolTable remains a thin assumed contract on this path.",
    "C04": "Round 5: annot_length is fed from the sum of varUintLen of the IDs, the IDs follow as VarUInts; every binary value method closes the wrapper "
           "it opened (exactly one beginValue, one write, one endValue on success).",
    "C05": "Round 5: sst.FindByID is bounds-safe against the symbols actually held (a table padded by Adjust has IDs without text, not a panic).",
    "C06": "Round 5 correction: the check no longer covers the binary path only. No-panic obligations also hold for the text tokenizer's character level, "
           "readString, ParseDecimal, ParseTimestamp and computeOffset, the textReader's onSymbol/onTimestamp, the scalar decoders, findField, emptyValue, "
           "the symbol-table reader (readImport, readSymbols) and cmd/ion-go's copy loop and event writer; v.Index(i) in decodeSliceTo is reached only "
           "with 0 <= i < v.Len(). Not covered: number/blob scanning, the struct/map/slice-growth paths of Unmarshal (reflect memory is a versioned ghost).",
    "C07": "Round 5: text side: a short string with a raw line break or prohibited control character is rejected before anything is appended to its "
           "value; an annotation wrapper whose annot_length exceeds the wrapper is a syntax error.",
    "C08": "Round 5: text side: textReader.StepOut finishes the current value before skipping; skipping a blob and reading it treat `//` the same way.",
    "C10": "Round 5: basicCatalog is under contract: add files a table under its exact name and version whatever else is present and keeps as latest "
           "the largest version added so far in any order; FindExact/FindLatest return exactly those entries (fmt.Sprintf over strings and integers is an "
           "uninterpreted function of its operands).",
    "C11": "Round 5: basicCatalog.add/FindExact/FindLatest as in C10; binaryWriter.beginValue returns as soon as an annotation cannot be resolved "
           "(ghost counter of failed calls: no later annotation runs with a failure pending).",
    "C12": "Round 5: ghost failed-call counters: textWriter.beginValue/begin/end/writeFieldName/writeAnnotations/writeIndent, textWriter.Finish and "
           "binaryWriter.Finish return an error whenever one of their write calls failed, and make at most one failing call.",
    "C13": "Round 5: ParseDecimal hands NewDecimal the written exponent minus the fraction digits computed without wrap-around (found and repaired a wrap, "
           "DESIGN.md 0.3); decodeInt keeps int/int64 values; the text writer's integer spelling (see C01). strconv.ParseInt with a constant bit size is a "
           "trusted ranged function.",
    "C14": "Round 5: ParseDecimal's exponent arithmetic is now decided (see C13); Decimal.trunc and round are proved panic-free instead of assumed.",
    "C15": "Round 5: computeOffset is proved to read the hour from the two characters after the sign and the minute from everything after the colon "
           "(it was an assumed pure function). Timestamp.String stays outside the subset (time.Format).",
    "C16": "Round 5: findField returns the field with the exact name wherever it stands and a case-insensitive match only when there is none; "
           "emptyValue (omitempty) drops exactly the zero value of the kind, a pointer or interface only when nil.",
    "C17": "Round 5: decodeSliceTo addresses an element only inside the target (v.Index(i) with 0 <= i < v.Len() in the state of the call; the element "
           "counter is assumed not to wrap, listed in the evidence); reflect observers of mutable state are now functions of a ghost version that every "
           "setter moves on (SetLen and Set keep what they determine), so a fact read before a setter is not used after it. Slice growth is not decided.",
    "C19": "Round 5: see C12 (failed writes are returned); bitstream.read treats only io.EOF as the end of input.",
    "C20": "Round 5: eventwriter.write is proved (was assumed): every event carries the pending field name exactly when one was set, the pending "
           "annotations, the current depth and the caller's type and text; EndStruct clears the struct flag of the level it leaves and of no other.",
}

# statements of earlier rounds that are no longer true
CORRECTIONS = [
    ("Trusted (assumed, listed in evidence): ReadAnnotations and readLocalSymbolTable are thin assumed contracts for their callers (decimals, "
     "timestamps and the annotation wrapper's length re-validation are proved); ",
     "Trusted (assumed, listed in evidence): readLocalSymbolTable is a thin assumed contract for its caller; "),
    ("Binary reader and accessors only: the text reader, Decoder/Unmarshal and the symbol-table reader are not under contract yet, so this "
     "check decides the property for binary input up to the same trusted thin contracts as C03. Termination is not proved.",
     "Termination is not proved."),
    ("Binary input only; the text reader's error paths are not under contract. ", "Mostly binary input; of the text reader the state machine's "
     "rejections, escapes and short strings are under contract. "),
    ("Binary reader only. Navigation programs", "Binary reader, and the text reader's StepOut and skipping helpers. Navigation programs"),
    ("Not decided: ParseDecimal and the String/ParseDecimal round trip (strconv and fmt are outside the generator's subset), the digits after the "
     "exponent marker, trunc/round.", "Not decided: the String/ParseDecimal round trip as a whole (digit parsing is big.Int.SetString, an "
     "uninterpreted function), the digits after the exponent marker."),
    ("reflect observers are trusted pure functions, setters are not modelled;", "reflect is a trusted model (see below);"),
    ("the event writer's event contents (built through Marshal), ", "the encoding of an event once handed to the Encoder (Marshal), "),
]

NOT_APPLICABLE = {}

ALL = ["C%02d" % i for i in range(1, 21)]


def main():
    # every commit of /repo that touches a hook file (oldest first)
    src = subprocess.run(["git", "-C", "/repo", "log", "--reverse", "--format=%H", "--", "ion/zz_verif_contracts.go", "ion/zz_verif_spec.go",
                          "cmd/ion-go/zz_verif_contracts.go", "cmd/ion-go/zz_verif_spec.go"], capture_output=True, text=True).stdout.split()
    checks = []
    for pid in ALL:
        if pid not in CLAIMS:
            continue
        text, note, ref = CLAIMS[pid]
        for a, b in CORRECTIONS:
            note = note.replace(a, b)
        if pid in UPDATES:
            note = note + " " + UPDATES[pid]
        checks.append({
            "property_id": pid,
            "quick_cmd": "./check.sh %s quick" % pid,
            "thorough_cmd": "./check.sh %s thorough" % pid,
            "evidence_file": "/verif/evidence/%s.json" % pid,
            "replay_cmd_template": "cat {path}",  # the replay file carries the inputs, the real run's outcome and the solver output
            "engine": "ionvc",
            "level_claimed": {"category": "proof", "text": text, "design_ref": ref},
            "level_note": note,
            "technique": TECH if pid != "C18" else "frame-condition obligations (modifies nothing shared) generated from go/ssa for every "
                         "function of the package, discharged by a conservative interprocedural flow analysis (no solver)",
        })
    na = []
    for pid in ALL:
        if pid in CLAIMS:
            continue
        na.append({"property_id": pid, "reason": NOT_APPLICABLE.get(pid, NA_DEFAULT)})
    man = {
        "version": 1,
        "setup_cmd": "./setup.sh",
        "hooks": {
            "guard": "verif",
            "enable": "go build tag `verif` (ionvc loads /repo with -tags=verif; the hook files are comment/spec only: "
                      "ion/zz_verif_contracts.go, ion/zz_verif_spec.go, cmd/ion-go/zz_verif_contracts.go, cmd/ion-go/zz_verif_spec.go)",
            "baseline_off_cmd": "cd /repo && GOFLAGS=-mod=mod GOPROXY=off GOSUMDB=off go test -mod=mod -json -vet=off -count=1 -timeout 25m ./...",
            "source_commits": src,
            "add_only": True,
        },
        "engines": [{
            "name": "ionvc", "path": "/verif/cmd/ionvc", "serves_properties": sorted(CLAIMS.keys()),
            "kind_free_text": "verification-condition generator over go/ssa (bit-precise integers, heap arrays per field, loops by complete "
                              "unrolling or inductive invariant, calls by contract) + SMT portfolio z3-new/cvc5/z3",
        }],
        "checks": checks,
        "not_applicable": na,
        "notes": "See DESIGN.md. Contracts live in /repo/ion/zz_verif_contracts.go (comment-only, build tag verif); known findings in "
                 "/verif/known_findings.json.",
    }
    with open(os.path.join(HERE, "MANIFEST.json"), "w") as f:
        json.dump(man, f, indent=1)
        f.write("\n")


if __name__ == "__main__":
    main()
