#!/bin/sh
# usage: stability.sh [rounds] [parallel]
# Runs every claimed quick check with the solver cache off, `parallel` checks at a time
# (oversubscribing the machine on purpose), `rounds` times, and reports every run that
# printed a VIOLATION or exited non-zero. A check that alarms here on the unchanged tree
# is flaky and must be restructured before it is trusted.
cd "$(dirname "$0")/.."
rounds=${1:-2}; par=${2:-3}
props=$(python3 -c "import json;print(' '.join(c['property_id'] for c in json.load(open('MANIFEST.json'))['checks']))")
out=/tmp/stability; rm -rf $out; mkdir -p $out
for r in $(seq 1 $rounds); do
  echo "$props" | tr ' ' '\n' | xargs -P $par -I{} sh -c "IONVC_CACHE=off bin/ionvc check -prop {} -tier quick -repo /repo -verif /verif -no-evidence > $out/{}_$r.log 2>&1; echo \"round $r {} exit=\$? \$(grep -c VIOLATION $out/{}_$r.log) \$(tail -1 $out/{}_$r.log | cut -c1-110)\""
done
