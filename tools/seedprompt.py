#!/usr/bin/env python3
"""Prints the task text given to an independent seeding sub-agent for one property.
The agent gets only the property text and a scratch worktree (no /verif content)."""
import json, os, sys

HERE = os.path.dirname(os.path.dirname(os.path.abspath(__file__)))


def main():
    pid = sys.argv[1]
    wt = sys.argv[2] if len(sys.argv) > 2 else "/tmp/seed/" + pid
    X, Y = (sys.argv[3], sys.argv[4]) if len(sys.argv) > 4 else ("A", "B")
    avoid = sys.argv[5] if len(sys.argv) > 5 else ""
    prop = None
    for l in open(os.path.join(HERE, "properties.jsonl")):
        p = json.loads(l)
        if p["id"] == pid:
            prop = p
    print(f"""You are helping to test a verification effort on the Go library amzn/ion-go (an implementation of Amazon Ion: text and binary readers and writers, symbol tables, decimals, timestamps, marshal/unmarshal).

Your working copy is the git worktree {wt} (a scratch checkout of the library). Work ONLY inside that directory. Do not read or write /repo or /verif at all.

Every shell command needs:  export GOFLAGS=-mod=mod GOPROXY=off GOSUMDB=off GOTOOLCHAIN=local   (there is no network).
The test suite is run with:  cd {wt} && go test -mod=mod -vet=off -count=1 ./...
On the unchanged code exactly these 7 tests fail (they need a test corpus that is absent) and everything else passes: TestLoadGood, TestBinaryRoundTrip, TestTextRoundTrip, TestLoadBad, TestEquivalency, TestNonEquivalency, TestDecodeFiles. "Passing the existing tests" below means: the same 7 fail, nothing else does.

This is a semantic property the library is supposed to have:

  {prop['id']}: {prop['title']}
  {prop['statement']}
  (Quantification: {prop['quantifier']['text']})

TASK. Produce TWO independent, realistic code changes (call them {X} and {Y}, at different places in the non-test source of the library) each of which BREAKS this property while the library still compiles and still passes the existing tests. "Realistic" means the kind of slip a maintainer could make in a refactor, optimisation or feature patch (an off-by-one at a boundary, a dropped case, a wrong variable, a missing reset of state, a swapped argument, an unchecked edge condition) - not sabotage that ordinary use would expose at once. Each change must need something specific to manifest: an unusual input or boundary value, a multi-step sequence of calls, a fault at a particular point, or two cooperating sites that each look fine alone. Keep each change small (a few lines).{(" Other testers have already changed these places; choose different functions: " + avoid + ".") if avoid else ""} Do not edit existing *_test.go files, go.mod, or anything outside {wt}.

For each change deliver, in {wt}/_out/ :
  - {X}.diff / {Y}.diff : the change as a unified diff made with `git -C {wt} diff -- . ':!_out'` when ONLY that change is applied (so it applies with `git apply` to a clean checkout). Source files only - the demonstration is separate.
  - {X}_demo_test.go / {Y}_demo_test.go : a demonstration - a Go test file for package ion (it will be copied into {wt}/ion/ to run; name the test functions TestSeed{X}... / TestSeed{Y}...) or, for cmd/ion-go, a test file for that package - that FAILS with the change applied and PASSES on the unchanged code. It must show the property being violated (wrong value read back, missing error, panic, etc.), not just a difference in an internal detail.
  - notes.md : for each change: what it breaks, why the existing tests do not notice, what it needs in order to manifest, and the exact commands you ran with their results: (1) full suite with the change applied (same 7 failures only), (2) the demo failing with the change, (3) the demo passing without it.

Verify all of that yourself before finishing. Leave the worktree clean of your changes at the end (git -C {wt} checkout -- . ; remove any demo files you copied into ion/), keeping only the _out/ directory (the leading underscore keeps the go tool from treating it as a package). Your final message should summarise the two changes in a few lines each.""")


if __name__ == "__main__":
    main()
