#!/usr/bin/env python3
"""Confirms a seeded change delivered by a sub-agent and files it under /verif/seeded/.

usage: confirm_seed.py <property> <variant> <dir with X.diff, X_demo_test.go, notes.md> [seeded-name]

In a scratch worktree of /repo (under /tmp, removed afterwards):
  1. the demonstration passes on the unchanged code,
  2. the patch applies, the tree builds, the full suite fails exactly the 7 corpus tests,
  3. the demonstration fails with the patch.
Only then is /verif/seeded/<name>/ written (patch.diff, demo, meta.json)."""
import json, os, re, shutil, subprocess, sys

ENV = dict(os.environ, GOFLAGS="-mod=mod", GOPROXY="off", GOSUMDB="off", GOTOOLCHAIN="local", GOWORK="off")
CORPUS = {"TestLoadGood", "TestBinaryRoundTrip", "TestTextRoundTrip", "TestLoadBad", "TestEquivalency", "TestNonEquivalency", "TestDecodeFiles"}
VERIF = os.path.dirname(os.path.dirname(os.path.abspath(__file__)))


def sh(cmd, cwd, timeout=1500):
    p = subprocess.run(cmd, shell=True, cwd=cwd, env=ENV, capture_output=True, text=True, timeout=timeout)
    return p.returncode, p.stdout + p.stderr


def failing(out):
    return set(re.findall(r"^--- FAIL: (\S+)", out, re.M))


def main():
    prop, var, src = sys.argv[1], sys.argv[2], sys.argv[3]
    name = sys.argv[4] if len(sys.argv) > 4 else "%s-%s" % (prop, var)
    diff = os.path.join(src, var + ".diff")
    demo = os.path.join(src, var + "_demo_test.go")
    wt = "/tmp/confirm_%s" % name
    sh("git -C /repo worktree remove --force %s" % wt, "/")
    rc, out = sh("git -C /repo worktree add --detach %s HEAD" % wt, "/")
    if rc:
        print(out)
        sys.exit(2)
    res = {"property": prop, "variant": var, "ran": []}
    try:
        pkg = "ion"
        head = open(demo).read(4000)
        if re.search(r"^package main", head, re.M):
            pkg = "cmd/ion-go"
        tests = re.findall(r"^func (Test\w+)\(", open(demo).read(), re.M)
        runre = "^(" + "|".join(tests) + ")$"
        dst = os.path.join(wt, pkg, "zz_seed_demo_test.go")
        shutil.copy(demo, dst)
        cmd_demo = "go test -mod=mod -vet=off -count=1 -timeout 300s -run '%s' ./%s/" % (runre, pkg)
        rc0, out0 = sh(cmd_demo, wt)
        res["ran"].append({"cmd": cmd_demo + "   # unchanged code", "exit": rc0})
        os.remove(dst)
        rc, out = sh("git apply --exclude='ion/zz_verif*' %s" % diff, wt)
        if rc:
            print("patch does not apply:", out)
            sys.exit(1)
        rc, out = sh("go build ./... ", wt)
        res["ran"].append({"cmd": "go build ./...   # with the change", "exit": rc})
        if rc:
            print("does not build:", out[-2000:])
            sys.exit(1)
        rcs, outs = sh("go test -mod=mod -vet=off -count=1 -timeout 25m ./...", wt)
        fails = {f.split("/")[0] for f in failing(outs)}
        res["ran"].append({"cmd": "go test -mod=mod -vet=off -count=1 ./...   # with the change", "failing_tests": sorted(fails)})
        shutil.copy(demo, dst)
        rc1, out1 = sh(cmd_demo, wt)
        res["ran"].append({"cmd": cmd_demo + "   # with the change", "exit": rc1, "tail": out1[-600:]})
        ok = rc0 == 0 and fails == CORPUS and rc1 != 0
        res["confirmed"] = ok
        print(json.dumps(res, indent=1))
        if not ok:
            print("NOT CONFIRMED: demo on unchanged exit=%d, suite failures=%s, demo with change exit=%d" % (rc0, sorted(fails), rc1))
            print(out0[-1500:] if rc0 else "")
            sys.exit(1)
        out_dir = os.path.join(VERIF, "seeded", name)
        os.makedirs(out_dir, exist_ok=True)
        shutil.copy(diff, os.path.join(out_dir, "patch.diff"))
        shutil.copy(demo, os.path.join(out_dir, "demo_test.go.txt"))
        notes = os.path.join(src, "notes.md")
        if os.path.exists(notes):
            shutil.copy(notes, os.path.join(out_dir, "agent_notes.md"))
        meta = {"property": prop, "breaks": "", "needs_to_manifest": "", "demo_package": pkg, "demo_tests": tests, "confirmed_by": res["ran"],
                "detected_by": "", "source": "independent sub-agent given only the property text and a scratch worktree"}
        mp = os.path.join(out_dir, "meta.json")
        if os.path.exists(mp):
            old = json.load(open(mp))
            for k in ("breaks", "needs_to_manifest", "detected_by"):
                meta[k] = old.get(k, "")
        json.dump(meta, open(mp, "w"), indent=1)
        print("CONFIRMED ->", out_dir)
    finally:
        sh("git -C /repo worktree remove --force %s" % wt, "/")
        shutil.rmtree(wt, ignore_errors=True)


if __name__ == "__main__":
    main()
