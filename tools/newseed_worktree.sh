#!/bin/sh
# usage: newseed_worktree.sh <property id>
# Creates /tmp/seed/<id>: a scratch worktree of /repo's HEAD without the verification hook
# files (a seeding sub-agent must see nothing of the contracts). The removal is committed
# inside the worktree so that the agent's diffs are relative to the hook-free tree.
set -eu
id="$1"; wt="/tmp/seed/$id"
git -C /repo worktree remove --force "$wt" 2>/dev/null || true
rm -rf "$wt"; mkdir -p /tmp/seed
git -C /repo worktree add --detach "$wt" HEAD >/dev/null 2>&1
cd "$wt"
git rm -q ion/zz_verif_contracts.go ion/zz_verif_spec.go cmd/ion-go/zz_verif_contracts.go cmd/ion-go/zz_verif_spec.go
git -c user.name=scratch -c user.email=scratch@example.invalid commit -qm "scratch: hook files removed"
mkdir -p _out
echo "$wt ready"
