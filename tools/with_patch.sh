#!/bin/sh
# usage: with_patch.sh <patch.diff> <command...>
# Applies a seeded change to /repo (which must have no uncommitted changes), runs the
# command, and restores /repo. Refuses to run on a dirty tree so nothing is ever lost.
set -u
p="$1"; shift
if ! git -C /repo diff --quiet || ! git -C /repo diff --cached --quiet; then
  echo "with_patch: /repo has uncommitted changes - commit them first" >&2; exit 3
fi
p=$(readlink -f "$p"); ( cd /repo && patch -p1 --fuzz=3 -s < "$p" ) || { git -C /repo checkout -- .; find /repo -name '*.orig' -o -name '*.rej' | xargs -r rm -f; echo "with_patch: patch does not apply" >&2; exit 4; }
find /repo -name '*.orig' -o -name '*.rej' | xargs -r rm -f
"$@"; rc=$?
git -C /repo checkout -- .
git -C /repo clean -fdq -- ion cmd 2>/dev/null
exit $rc
