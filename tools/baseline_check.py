#!/usr/bin/env python3
"""Runs the repository's test suite (guard off) and compares with /root/.vp/BASELINE.json:
every stable_pass test must still pass. Usage: baseline_check.py [repo dir]"""
import json, os, subprocess, sys
repo = sys.argv[1] if len(sys.argv) > 1 else "/repo"
base = json.load(open("/root/.vp/BASELINE.json"))
env = dict(os.environ, GOFLAGS="-mod=mod", GOPROXY="off", GOSUMDB="off", GOTOOLCHAIN="local")
p = subprocess.run("go test -mod=mod -json -vet=off -count=1 -timeout 25m ./...", shell=True, cwd=repo, env=env, capture_output=True, text=True)
res = {}
for l in p.stdout.splitlines():
    try:
        e = json.loads(l)
    except Exception:
        continue
    if e.get("Test") and e.get("Action") in ("pass", "fail", "skip"):
        res[e["Package"] + "::" + e["Test"]] = e["Action"]
want = set(base["stable_pass"])
bad = sorted(t for t in want if res.get(t) != "pass")
print("baseline stable_pass: %d, passing now: %d, missing/failing: %d" % (len(want), sum(1 for t in want if res.get(t) == "pass"), len(bad)))
for t in bad[:20]:
    print("  ", t, res.get(t))
sys.exit(1 if bad else 0)
