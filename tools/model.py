#!/usr/bin/env python3
"""Development aid: tools/model.py <dump.smt2> <obligation-name-substring> [smt-expr ...]
Re-runs one obligation of a dumped script with z3-new and prints the values of the
given SMT expressions (default: all declared scalar constants)."""
import re, subprocess, sys

path, name = sys.argv[1], sys.argv[2]
exprs = sys.argv[3:]
s = open(path).read()
first = re.search(r'^; ', s, re.M).start()
base = s[:first]
i = s.index(name)
i = s.rindex('\n; ', 0, i + 1) if s[i - 2:i] != '; ' else i
blk = s[s.index('(push 1)', i):]
cond = blk[len('(push 1)'):blk.index('(check-sat)')]
if not exprs:
    for m in re.finditer(r'\(declare-const (\S+|\|[^|]*\|) (\(_ BitVec \d+\)|Bool)\)', base):
        exprs.append(m.group(1))
q = base + cond + '(check-sat)\n(get-value (' + ' '.join(exprs) + '))\n'
open('/tmp/model_q.smt2', 'w').write(q)
out = subprocess.run(['z3-new', '-T:60', '/tmp/model_q.smt2'], capture_output=True, text=True).stdout
print(out)
