#!/usr/bin/env python3
"""Rewrites the obligation counts of the table in DESIGN.md section 0.1 from evidence/*.json."""
import json, os, re
V = os.path.dirname(os.path.dirname(os.path.abspath(__file__)))
full = open(os.path.join(V, "DESIGN.md")).read()
cut = full.index("### 0.2 ")  # only the table of section 0.1
s, rest = full[:cut], full[cut:]
for i in range(1, 21):
    pid = "C%02d" % i
    try:
        n = json.load(open(os.path.join(V, "evidence", pid + ".json")))["coverage"]["obligations"]
    except Exception:
        continue
    s = re.sub(r"^\| %s \| \d+ \|" % pid, "| %s | %d |" % (pid, n), s, flags=re.M)
open(os.path.join(V, "DESIGN.md"), "w").write(s + rest)
