#!/usr/bin/env python3
"""Mutation sweep over the functions under contract (a vacuity / strength check of the
contracts themselves, run on engine or contract changes; not one of the registered checks).

For every function that has a proved (non-trusted) contract block, small token mutations
are applied to its body, one at a time, in a scratch worktree of /repo under /tmp; the
function is re-verified with `ionvc dev -func`. A mutant is *killed* when verification
reports a failed or undischarged obligation, a contract that no longer attaches, or a
function that left the subset. Survivors are listed: each is either an equivalent mutant
or a place where the contract says too little.

usage: mutsweep.py [-n MAX_PER_FUNC] [-f substring] [-o out.json]"""
import json, os, re, subprocess, sys, random, argparse

VERIF = os.path.dirname(os.path.dirname(os.path.abspath(__file__)))
ENV = dict(os.environ, GOFLAGS="-mod=mod", GOPROXY="off", GOSUMDB="off", GOTOOLCHAIN="local", GOWORK="off", IONVC_CACHE="off")
WT = "/tmp/mut_repo"

MUTS = [(r"<=", "<"), (r">=", ">"), (r"(?<![<>=!-])<(?![<=-])", "<="), (r"(?<![<>=!-])>(?![>=])", ">="), (r"==", "!="), (r"!=", "=="),
        (r"&&", "||"), (r"\|\|", "&&"), (r"\+ 1\b", "+ 2"), (r"- 1\b", "- 0"), (r"\btrue\b", "false"), (r"\+=", "-="), (r"-=", "+=")]


def contracts():
    out = []
    for path, pkg in (("/repo/ion/zz_verif_contracts.go", "ion"), ("/repo/cmd/ion-go/zz_verif_contracts.go", "cmd/ion-go")):
        cur, trusted = None, False
        for l in open(path):
            m = re.match(r"//@ func (.+)$", l.strip())
            if m:
                if cur and not trusted:
                    out.append((pkg, cur))
                cur, trusted = m.group(1).strip(), False
            elif l.startswith("//@ trusted"):
                trusted = True
            elif re.match(r"//@ (interface|model|lemma|opaque)\b", l):
                if cur and not trusted:
                    out.append((pkg, cur))
                cur = None
        if cur and not trusted:
            out.append((pkg, cur))
    return out


def find_func(pkg, fid):
    """returns (file, first body line index, last body line index) of the function"""
    m = re.match(r"\((\*?)(\w+)\)\.(\w+)$", fid)
    if m:
        star, recv, name = m.groups()
        pat = re.compile(r"^func \(\w+ %s%s\) %s\(" % (re.escape(star), recv, name))
    else:
        pat = re.compile(r"^func %s\(" % re.escape(fid))
    d = os.path.join(WT, pkg)
    for fn in sorted(os.listdir(d)):
        if not fn.endswith(".go") or fn.endswith("_test.go") or fn.startswith("zz_verif"):
            continue
        lines = open(os.path.join(d, fn)).read().split("\n")
        for i, l in enumerate(lines):
            if pat.match(l):
                for j in range(i + 1, len(lines)):
                    if lines[j] == "}":
                        return os.path.join(d, fn), i + 1, j
    return None


def main():
    ap = argparse.ArgumentParser()
    ap.add_argument("-n", type=int, default=4)
    ap.add_argument("-f", default="")
    ap.add_argument("-o", default="/tmp/mutsweep.json")
    ap.add_argument("-t", type=int, default=240)
    a = ap.parse_args()
    subprocess.run("git -C /repo worktree remove --force %s" % WT, shell=True, capture_output=True)
    subprocess.run("rm -rf %s" % WT, shell=True)
    subprocess.run("git -C /repo worktree add --detach %s HEAD" % WT, shell=True, capture_output=True, check=True)
    rnd = random.Random(1)
    res = []
    for pkg, fid in contracts():
        if a.f and a.f not in fid:
            continue
        loc = find_func(pkg, fid)
        if not loc:
            continue
        path, lo, hi = loc
        src = open(path).read().split("\n")
        cands = []
        for li in range(lo, hi):
            code = src[li].split("//")[0]
            if '"' in code or "'" in code:
                continue
            for pat, rep in MUTS:
                for m in re.finditer(pat, code):
                    cands.append((li, m.start(), m.end(), rep))
        rnd.shuffle(cands)
        for li, s, e, rep in cands[: a.n]:
            mutated = list(src)
            mutated[li] = src[li][:s] + rep + src[li][e:]
            open(path, "w").write("\n".join(mutated))
            try:
                p = subprocess.run([os.path.join(VERIF, "bin/ionvc"), "dev", "-repo", WT, "-func", fid], env=ENV, cwd=VERIF, capture_output=True, text=True, timeout=a.t)
                out = p.stdout + p.stderr
                killed = bool(re.search(r"FAIL|UNSUPPORTED|load:", out))
                tot = re.search(r"total (\d+) obligations, (\d+) ok", out)
                why = "timeout-run" if tot is None and not killed else ""
            except subprocess.TimeoutExpired:
                killed, why, tot = True, "run exceeded %ds" % a.t, None
            finally:
                open(path, "w").write("\n".join(src))
            rec = {"func": fid, "file": os.path.relpath(path, WT), "line": li + 1, "orig": src[li].strip(), "mutant": mutated[li].strip(), "killed": killed, "note": why}
            res.append(rec)
            print(("KILLED   " if killed else "SURVIVED ") + "%s %s:%d  %s  ->  %s" % (fid, rec["file"], li + 1, rec["orig"][:60], rec["mutant"][:60]), flush=True)
            json.dump(res, open(a.o, "w"), indent=1)
    k = sum(1 for r in res if r["killed"])
    print("mutants: %d, killed: %d, survived: %d" % (len(res), k, len(res) - k))
    subprocess.run("git -C /repo worktree remove --force %s" % WT, shell=True, capture_output=True)


if __name__ == "__main__":
    main()
