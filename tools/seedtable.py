#!/usr/bin/env python3
"""Regenerates the seeded-change table of DESIGN.md section 0.5 and the `detected_by` fields
of seeded/*/meta.json from seed-matrix logs (later logs override earlier ones).
usage: seedtable.py log [log ...]   (prints the markdown table)"""
import json, os, re, sys
VERIF = os.path.dirname(os.path.dirname(os.path.abspath(__file__)))
ROUND3 = {
 "C01-E": "text timestamp: the minute field of a +hh:mm offset is parsed from the hour digits",
 "C01-F": "binary WriteDecimal: the one-byte zero form is also taken for negative zero",
 "C02-E": "raw vertical tab / form feed inside quoted text rejected as control characters",
 "C02-F": "clob escape \\x80..\\xFF decoded to two UTF-8 bytes instead of one octet",
 "C03-E": "nine-byte int with one leading zero byte takes the int64 path without the sign-bit test",
 "C03-F": "annot_length assumed to be one byte when the wrapper's remaining length is computed",
 "C04-E": "annot_length written as the number of annotations instead of their byte length",
 "C04-F": "binary WriteClob no longer closes the annotation wrapper (endValue dropped)",
 "C05-E": "a version marker resets the symbol table only when none is installed yet",
 "C05-F": "sst.FindByID bounds the ID by max_id instead of the symbols held (panic on a padded table)",
 "C06-E": "binary StepIn keeps the container's value (second StepIn panics)",
 "C06-F": "array target: element index checked with <= (index past the end panics)",
 "C07-E": "VarUInt may end one byte past the room its container leaves",
 "C07-F": "raw line break inside a short string accepted when the value is read",
 "C08-E": "skipping a blob skips comments inside {{ }}",
 "C08-F": "text StepIn accepted on a null container",
 "C09-E": "lst.FindByName consults the local index before the imports",
 "C09-F": "sst.FindByID bounds the ID by max_id (panic on a padded table)",
 "C10-E": "catalog: the latest version is looked up under the name/version key (last added wins)",
 "C10-F": "non-string entries of a symbols list no longer reserve an ID",
 "C11-E": "catalog: a table older than the newest is not filed under its exact version",
 "C11-F": "annotation resolve error checked after the loop (a later annotation overwrites it)",
 "C12-E": "text/binary FieldName usage error returned but not made sticky",
 "C12-F": "annotation lengths summed with uintLen instead of varUintLen",
 "C13-E": "text WriteUint formats through int64 (values from 2^63 print negative)",
 "C13-F": "IntValue's 32-bit range check replaced by an int round trip (never fires on 64-bit)",
 "C14-E": "Cmp fast path by digit position forgets that the order reverses for negatives",
 "C14-F": "rescale returns early when an operand is zero (Add/Sub then mix scales)",
 "C15-E": "binary timestamp fraction coefficient written unsigned but sized as signed",
 "C15-F": "Timestamp.String: unknown offset fixed up only above minute precision",
 "C16-E": "findField returns the first exact-or-case-insensitive match",
 "C16-F": "omitempty also drops non-nil pointers/interfaces to zero values",
 "C17-E": "field index paths built with append share a backing array (deep embedding)",
 "C17-F": "slice growth from capacity 1 does not grow (SetLen panics)",
 "C18-E": "process-wide struct-field cache written under a read lock",
 "C18-F": "\\xHH escape assembled in a shared package-level buffer",
 "C19-E": "binary read treats io.ErrUnexpectedEOF as a clean end",
 "C19-F": "text Finish stores the failed newline write but returns nil",
 "C20-E": "event writer: field name only when it believes it is in a struct; EndStruct clears the parent's flag",
 "C20-F": "binary WriteFloat writes -0e0 as the one-byte positive zero",
}


def place_of(patch):
    f, fn = "", ""
    for l in open(patch):
        m = re.match(r"\+\+\+ b/(\S+)", l)
        if m and not f:
            f = os.path.basename(m.group(1))
        m = re.match(r"@@ .* @@ func (?:\([^)]*\) )?(\w+)", l)
        if m and not fn:
            fn = m.group(1)
    return (f + " " + fn).strip()


def main():
    det = {}
    for log in sys.argv[1:]:
        for l in open(log):
            m = re.match(r"(C\d\d-\w+)\s+own=(C\d\d).*detected_by=(.*)$", l.strip())
            if m:
                det[m.group(1)] = m.group(3).strip()
    rows = []
    for s in sorted(os.listdir(os.path.join(VERIF, "seeded"))):
        d = os.path.join(VERIF, "seeded", s)
        mp = os.path.join(d, "meta.json")
        if not os.path.exists(mp):
            continue
        meta = json.load(open(mp))
        if not meta.get("breaks") and s in ROUND3:
            meta["breaks"] = ROUND3[s]
        place = place_of(os.path.join(d, "patch.diff"))
        meta["place"] = place
        if s in det:
            meta["detected_by"] = [] if det[s] == "-" else det[s].split()
        json.dump(meta, open(mp, "w"), indent=1)
        caught = " ".join(meta.get("detected_by") or []) or "**not caught**"
        txt = (meta.get("breaks") or "").split(": ", 1)[-1] if s not in ROUND3 else meta["breaks"]
        rows.append("| %s | %s | %s | %s |" % (s, place, txt.replace("|", "/")[:90], caught))
    print("| seed | place | change | caught by (violations) |\n|---|---|---|---|")
    print("\n".join(rows))
    n = sum(1 for r in rows if "not caught" not in r)
    print("\n%d of %d caught" % (n, len(rows)), file=sys.stderr)


if __name__ == "__main__":
    main()
