#!/usr/bin/env python3
"""Must-fail self-test of the generator: in a scratch worktree of /repo (under /tmp, removed
afterwards) a postcondition `1 == 2` is added to a sample of contracts of every style
(split returns, loop invariants, unrolled loops, atcall-only, interface-based, lemmas'
neighbours, package main). Every one of them must then report at least one failed
obligation per return path; a function that still verifies means the engine accepts
anything there (a vacuous path, a leaked assumption). Run after every engine change.
exit 0: every false postcondition was rejected."""
import os, re, subprocess, sys
VERIF = os.path.dirname(os.path.dirname(os.path.abspath(__file__)))
ENV = dict(os.environ, GOFLAGS="-mod=mod", GOPROXY="off", GOSUMDB="off", GOTOOLCHAIN="local", GOWORK="off", IONVC_CACHE="off")
WT = "/tmp/st_repo"
ION = ["(*bitstream).ReadTimestamp", "readImport", "(*lst).WriteTo", "(*Decimal).Add", "(*tokenizer).readHexEscapeSeq", "processImports", "(*binaryReader).Next",
       "(*Encoder).encodeValue", "(*reader).Int64Value", "(*bitstream).ReadInt", "(*bitstream).Next", "appendVarUint", "(*textReader).StepOut", "(*binaryWriter).Finish",
       "(*Decimal).String", "(*bitstream).validateAnnotatedValue", "(*lst).FindByName", "(*tokenizer).read", "(*Decoder).decodeTo", "(*symbolTableBuilder).Add"]
MAIN = ["(*processor).process", "(*processor).processFiles"]
subprocess.run("git -C /repo worktree remove --force %s; rm -rf %s" % (WT, WT), shell=True, capture_output=True)
subprocess.run("git -C /repo worktree add --detach %s HEAD" % WT, shell=True, capture_output=True, check=True)
bad = []
try:
    # one function at a time: a false postcondition on a callee would make the paths after
    # the call unreachable in its callers and hide their own false postcondition
    for path, fns in ((WT + "/ion/zz_verif_contracts.go", ION), (WT + "/cmd/ion-go/zz_verif_contracts.go", MAIN)):
        orig = open(path).read()
        for fn in fns:
            t = "//@ func %s\n" % fn
            assert t in orig, fn
            open(path, "w").write(orig.replace(t, t + "//@ ensures[C99] 1 == 2\n", 1))
            p = subprocess.run([VERIF + "/bin/ionvc", "dev", "-repo", WT, "-func", fn + ""], env=ENV, cwd=VERIF, capture_output=True, text=True, timeout=1500)
            out = p.stdout + p.stderr
            fails = len(re.findall(r"FAIL .*%s:post:ensures0" % re.escape(fn), out))
            tot = re.search(r"total (\d+) obligations, (\d+) ok", out)
            print("%-45s failed false postconditions: %d   (%s)" % (fn, fails, tot.group(0) if tot else out.strip()[-80:]), flush=True)
            if fails == 0:
                bad.append(fn)
        open(path, "w").write(orig)
finally:
    subprocess.run("git -C /repo worktree remove --force %s" % WT, shell=True, capture_output=True)
if bad:
    print("ACCEPTED A FALSE POSTCONDITION:", bad)
    sys.exit(1)
print("every false postcondition was rejected")
